(* C03 / C20: the routing parser never returns a template with nested variables - whatever the text.  As for the strict
   parser this is a property of the tokenizer (inside a variable '{' does not start a token), carried through the descent
   as [shaped] (Proofs/StrictProofs.v); the routing parser additionally cuts the verb off the last token before it parses,
   which [shaped] survives.  Consequence: the hypothesis "no nested variables" (seg_ok) of the C03 matching theorems holds
   for every template the router can hold, and the routing theorems hold for every table built from texts. *)
From Coq Require Import Lia NArith List Bool.
From GB Require Import Model.Template Model.TemplateRun Model.Strict Proofs.MDFilterProofs Proofs.TemplateProofs Proofs.TemplateParseProofs Proofs.TemplateSoundProofs Proofs.StrictProofs.
Import ListNotations.
Open Scope N_scope.

(* ---- replacing the last token (one that is no delimiter in any state) by a prefix of it, or dropping it ---- *)
Definition never_dtok (t : bytes) : Prop := forall st, is_dtok st t = None.

Lemma shaped_eof_only st ar : shaped st ar [eof].
Proof. cbn [shaped]. replace (is_dtok st eof) with (@None N); [right; reflexivity|]. unfold eof, is_dtok. destruct st as [|[|st]]; reflexivity. Qed.

Lemma shaped_cut_last : forall toks st ar t x, shaped st ar (toks ++ [t]) -> never_dtok t -> t <> eof ->
  shaped st ar (toks ++ [x; eof]) /\ shaped st ar (toks ++ [eof]).
Proof.
  induction toks as [|a toks IH]; intros st ar t x SH ND NE.
  - cbn [app] in *. destruct (shaped_none _ _ _ _ (ND st) SH) as [[-> _]|E]; [|contradiction]. split; [|apply shaped_eof_only].
    cbn [shaped]. destruct (is_dtok st x); [apply shaped_eof_only | left; split; [reflexivity | apply shaped_eof_only]].
  - cbn [app shaped] in *. destruct (is_dtok st a).
    + exact (IH _ _ t x SH ND NE).
    + destruct SH as [[-> SH]|E].
      * destruct (IH _ _ t x SH ND NE) as [A B]. split; left; auto.
      * split; right; exact E.
Qed.

Lemma colon_never_dtok t : In c_colon t -> never_dtok t /\ t <> eof.
Proof.
  intros I. split.
  - intros st. unfold is_dtok. destruct t as [|d [|e r]]; try reflexivity.
    destruct I as [E|[]]. subst d. destruct st as [|[|st]]; reflexivity.
  - intros ->. destruct I as [X|[]]. discriminate.
Qed.

Lemma gw_tokenize_shaped path toks verb : gw_tokenize path = (toks, verb) -> shaped 0 false toks.
Proof.
  unfold gw_tokenize. destruct path as [|p0 path'].
  - intros H. injection H as <- _. apply shaped_eof_only.
  - set (path := p0 :: path'). set (tk0 := scan O path []).
    assert (SH : shaped 0 false tk0) by (apply (proj1 (scan_shaped path 0%nat [])); reflexivity).
    set (t := last tk0 []).
    set (after_var := match rev tk0 with _ :: p :: _ => bytes_eqb p [c_rbrace] | _ => false end).
    destruct (if after_var then index_of c_colon t O else last_index_of c_colon t O None) as [i|] eqn:IDX.
    + assert (SPLIT : t = firstn i t ++ c_colon :: skipn (S i) t).
      { destruct after_var.
        - apply index_of_split in IDX as [_ H]. rewrite Nat.sub_0_r in H. exact H.
        - apply last_index_of_split in IDX as [H|[_ H]]; [discriminate|]. rewrite Nat.sub_0_r in H. exact H. }
      assert (TN : tk0 <> []).
      { intros E. unfold t in SPLIT. rewrite E in SPLIT. cbn in SPLIT. destruct (firstn i []); discriminate. }
      assert (TK : tk0 = removelast tk0 ++ [t]) by (apply removelast_last_app; exact TN).
      assert (IC : In c_colon t) by (rewrite SPLIT; apply in_or_app; right; left; reflexivity).
      destruct (colon_never_dtok t IC) as [ND NE].
      rewrite TK in SH. destruct (shaped_cut_last _ _ _ t (firstn i t) SH ND NE) as [A B].
      destruct i as [|i]; intros H; injection H as <- _; [exact B | exact A].
    + intros H. injection H as <- _. apply shaped_eof. exact SH.
Qed.

(* ---- the descent: inside a variable only flat segments come back ---- *)
Definition gw_inner_flat (inner : list bytes -> option (list seg * list bytes)) : Prop :=
  forall st toks segs rest, (st = 0 \/ st = 2)%nat -> Forall ne toks -> shaped st false toks -> inner toks = Some (segs, rest) ->
    (exists ar, shaped st ar rest) /\ (st = 2%nat -> forallb flat segs = true) /\ (st = 0%nat -> forallb seg_ok segs = true).

Lemma gw_segment_flat inner st toks sg rest : gw_inner_flat inner -> (st = 0 \/ st = 2)%nat -> Forall ne toks -> shaped st false toks ->
  gw_segment false inner toks = Some (sg, rest) ->
  (exists ar, shaped st ar rest) /\ (st = 2%nat -> flat sg = true) /\ (st = 0%nat -> seg_ok sg = true).
Proof.
  intros IS ST NE SH. unfold gw_segment. destruct toks as [|t r]; [intros X; discriminate X|].
  rewrite !punct_strict, punct_s_strict. inversion NE as [|? ? Nt Nr]; subst.
  destruct (tok_is c_star t) eqn:T1.
  { intros H. injection H as <- <-. apply tok_is_eq in T1. subst t. split; [|auto]. exists true.
    apply (shaped_run st [c_star] r SH); [destruct ST as [-> | ->]; reflexivity | discriminate]. }
  destruct (bytes_eqb t s_deep) eqn:T2.
  { intros H. injection H as <- <-. apply bytes_eqb_eq in T2. subst t. split; [|auto]. exists true.
    apply (shaped_run st s_deep r SH); [reflexivity | discriminate]. }
  destruct (is_literal t) eqn:T3.
  { intros H. injection H as <- <-. split; [|auto]. exists true. apply (shaped_run st t r SH).
    - destruct (is_dtok st t) as [d|] eqn:DT; [|reflexivity]. exfalso. unfold is_dtok in DT. destruct t as [|x [|y t']]; try discriminate.
      destruct (is_delim st x) eqn:DX; [|discriminate]. rewrite (delim02_not_literal st x ST DX) in T3. discriminate.
    - intros ->. discriminate. }
  destruct (tok_is c_lbrace t) eqn:T4; [|intros X; discriminate X]. apply tok_is_eq in T4. subst t.
  destruct (gw_field_path r) as [[path r1]|] eqn:FP; [|intros X; discriminate X].
  destruct ST as [-> | ->].
  2:{ exfalso. assert (SH2 : shaped 2 true r) by (apply (shaped_run 2 [c_lbrace] r SH); [reflexivity | discriminate]).
      unfold gw_field_path in FP. destruct r as [|c r']; [discriminate|]. destruct (is_ident c) eqn:Ic; [|discriminate].
      destruct (is_dtok 2 c) as [d|] eqn:DT.
      - unfold is_dtok in DT. destruct c as [|x [|y c']]; try discriminate. destruct (is_delim 2 x) eqn:DX; [|discriminate].
        rewrite (delim2_not_ident x DX) in Ic. discriminate.
      - destruct (shaped_none _ _ _ _ DT SH2) as [[X _]|E]; [discriminate|]. subst c. discriminate. }
  assert (SH1 : shaped 1 false r) by exact (shaped_dtok 0 false [c_lbrace] r c_lbrace eq_refl SH).
  pose proof (fp_shaped r path r1 Nr SH1 FP) as SHp.
  destruct (field_path_sound _ _ _ FP) as (usedp & E1 & _).
  destruct r1 as [|e r2]; [intros X; discriminate X|]. rewrite !punct_strict.
  assert (Nr2 : Forall ne r2).
  { rewrite E1 in Nr. apply Forall_app_r in Nr. inversion Nr; assumption. }
  destruct (tok_is c_eq e) eqn:Te.
  - apply tok_is_eq in Te. subst e.
    assert (SH2 : shaped 2 false r2) by exact (shaped_dtok 1 true [c_eq] r2 c_eq eq_refl SHp).
    destruct (inner r2) as [[segs r3]|] eqn:IN; [|intros X; discriminate X].
    destruct (IS 2%nat _ _ _ (or_intror eq_refl) Nr2 SH2 IN) as ([ar SH3] & FL & _).
    destruct r3 as [|c r4]; [intros X; discriminate X|]. rewrite punct_strict. destruct (tok_is c_rbrace c) eqn:Tc; [|intros X; discriminate X].
    apply tok_is_eq in Tc. subst c. intros H. injection H as <- <-.
    split; [exists false; exact (shaped_dtok 2 ar [c_rbrace] r4 c_rbrace eq_refl SH3)|]. split; [intros X; discriminate X|].
    intros _. cbn [seg_ok]. exact (FL eq_refl).
  - destruct (tok_is c_rbrace e) eqn:Tr; [|intros X; discriminate X]. apply tok_is_eq in Tr. subst e.
    intros H. injection H as <- <-.
    split; [exists false; exact (shaped_dtok 1 true [c_rbrace] r2 c_rbrace eq_refl SHp)|]. split; [intros X; discriminate X | reflexivity].
Qed.

Theorem gw_segments_flat : forall fuel, gw_inner_flat (gw_segments false fuel).
Proof.
  induction fuel as [|f IH]; intros st toks segs rest ST NE SH H; cbn [gw_segments] in H; [discriminate|].
  destruct (gw_segment false (gw_segments false f) toks) as [[s r]|] eqn:SG; [|discriminate].
  destruct (gw_segment_flat _ _ _ _ _ IH ST NE SH SG) as ([ar SHr] & F2 & F0).
  assert (ONE : (exists ar0, shaped st ar0 r) /\ (st = 2%nat -> forallb flat [s] = true) /\ (st = 0%nat -> forallb seg_ok [s] = true)).
  { split; [exists ar; exact SHr|]. split; intros E; cbn [forallb]; [rewrite (F2 E) | rewrite (F0 E)]; reflexivity. }
  destruct r as [|t r']; [injection H as <- <-; exact ONE|].
  rewrite punct_strict in H. destruct (tok_is c_slash t) eqn:Ts; [|injection H as <- <-; exact ONE].
  apply tok_is_eq in Ts. subst t.
  destruct (gw_segments false f r') as [[more r'']|] eqn:MORE; [|discriminate]. injection H as <- <-.
  assert (TOKS : exists used, toks = used ++ [c_slash] :: r').
  { (* the segment consumed a prefix: by soundness of the text lemma *)
    destruct (segment_sound _ _ _ _ (segments_sound f) NE SG) as (used & txt & E1 & _). exists used. exact E1. }
  destruct TOKS as [used E1].
  assert (Nr' : Forall ne r').
  { rewrite E1 in NE. apply Forall_app_r in NE. inversion NE; assumption. }
  assert (SH' : shaped st false r').
  { destruct ST as [-> | ->]; [exact (shaped_dtok 0 ar [c_slash] r' c_slash eq_refl SHr) | exact (shaped_dtok 2 ar [c_slash] r' c_slash eq_refl SHr)]. }
  destruct (IH st _ _ _ ST Nr' SH' MORE) as (SH2 & G2 & G0).
  split; [exact SH2|]. split; intros E; cbn [forallb]; [rewrite (F2 E), (G2 E) | rewrite (F0 E), (G0 E)]; reflexivity.
Qed.

(* ---- the whole parser ---- *)
Theorem gw_parse_no_nesting s t : gw_parse false s = Some t -> forallb seg_ok (t_segs t) = true.
Proof.
  unfold gw_parse. destruct s as [|c path]; [discriminate|].
  destruct ((c =? c_slash) && negb (existsb (N.eqb 0) (c :: path))); [|discriminate].
  destruct (gw_tokenize path) as [toks verb] eqn:TK.
  pose proof (gw_tokenize_shaped _ _ _ TK) as SH.
  destruct (tokenize_sound _ _ _ TK) as (toks0 & E0 & NE0 & _).
  destruct (negb (is_literal verb)); [discriminate|].
  destruct toks as [|t0 tr]; [discriminate|].
  destruct (bytes_eqb t0 eof).
  - intros H. injection H as <-. reflexivity.
  - destruct (gw_segments false (S (length (t0 :: tr))) (t0 :: tr)) as [[segs rest]|] eqn:SG; [|discriminate].
    destruct rest as [|e [|e2 rest']]; try discriminate. destruct (bytes_eqb e eof); [|discriminate].
    intros H. injection H as <-. cbn [t_segs].
    assert (NEall : Forall ne (t0 :: tr)).
    { rewrite E0. apply Forall_app. split; [exact NE0 | constructor; [discriminate | constructor]]. }
    exact (proj2 (proj2 (gw_segments_flat _ 0%nat _ _ _ (or_introl eq_refl) NEall SH SG)) eq_refl).
Qed.

(* ---- C03 without the hypothesis: every route the router can hold behaves like its template ---- *)
Theorem route_step_any_text text t comps : gw_parse false text = Some t ->
  route_step false (compile t) (t_verb t) comps = spec_step t comps.
Proof. intros P. apply route_step_spec. exact (gw_parse_no_nesting _ _ P). Qed.

(* ---- the routing table built from ANY description texts answers like the specification table ---- *)
Lemma table_routes_ops targets method : table_routes targets method = map to_ops (spec_routes targets method).
Proof.
  unfold table_routes, spec_routes. rewrite concat_map. f_equal. rewrite map_map. apply map_ext. intros tv.
  rewrite concat_map. f_equal. rewrite map_map. apply map_ext. intros bv.
  destruct (bytes_eqb _ method); [|reflexivity]. destruct (gw_parse false _); [|reflexivity]. destruct (pattern_ok _); reflexivity.
Qed.

Lemma spec_routes_parsed targets method ti bi t : In (ti, bi, t) (spec_routes targets method) -> exists text, gw_parse false text = Some t.
Proof.
  unfold spec_routes. intros H. apply in_concat in H. destruct H as (l1 & H1 & H). apply in_map_iff in H1. destruct H1 as (tv & <- & _).
  apply in_concat in H. destruct H as (l2 & H2 & H). apply in_map_iff in H2. destruct H2 as (bv & <- & _).
  destruct (bytes_eqb _ method); [|destruct H]. destruct (gw_parse false (as_S (nthv 1 (snd bv)))) as [t'|] eqn:P; [|destruct H].
  destruct (pattern_ok _); [|destruct H]. destruct H as [E|[]]. injection E as _ _ <-. eexists. exact P.
Qed.

Theorem route_table_spec targets method comps :
  first_route false (table_routes targets method) comps = spec_route (spec_routes targets method) comps.
Proof.
  rewrite table_routes_ops. apply first_route_spec. intros ti bi t Hin.
  destruct (spec_routes_parsed _ _ _ _ _ Hin) as [text P]. exact (gw_parse_no_nesting _ _ P).
Qed.

(* ---- the model of RouteHTTP meets the executable statement of the property on EVERY input ---- *)
Lemma route_step_abort ops pverb comps c : route_step false ops pverb comps = Abort c -> c = 3%Z.
Proof.
  unfold route_step.
  set (has := match pverb with [] => false | _ :: _ => ends_with (last comps []) (c_colon :: pverb) end).
  destruct (has && Nat.eqb (length (last comps []) - length pverb - 1) 0); [discriminate|].
  destruct has; (match goal with |- context [match_pattern ?a ?b ?c ?d] => destruct (match_pattern a b c d) end; try discriminate; intros H; injection H as <-; reflexivity).
Qed.
Lemma first_route_not_99 : forall routes comps, first_route false routes comps <> VL [VN 99].
Proof.
  induction routes as [|[[[ti bi] ops] verb] routes IH]; intros comps; cbn [first_route]; [discriminate|].
  destruct (route_step false ops verb comps) as [|c|vars] eqn:RS; [apply IH | | discriminate].
  apply route_step_abort in RS. subst c. discriminate.
Qed.

Theorem run_c03_is_spec v :
  run_c03 v = match as_S (nthv 3 v) with
              | c :: p => if (c =? c_slash)%N then spec_route (spec_routes (as_L (nthv 0 v)) (as_S (nthv 1 v))) (split_slash p [])
                          else VL [VN 3]
              | [] => VL [VN 3] end.
Proof.
  unfold run_c03. destruct (as_S (nthv 3 v)) as [|c p]; [reflexivity|]. destruct (c =? c_slash)%N; [apply route_table_spec | reflexivity].
Qed.
