(* C20, the strict parser (Model/Strict.v = internal/httprule/{tokenize,parse}.go): everything it accepts is a string of
   the template language with exactly the returned structure (st_parse_sound).  The language (StrictLang) is stated on
   strings: the derivation relation Rseg/Rsegs of Proofs/TemplateSoundProofs.v ("{path}" short for "{path=*}") plus the
   restrictions the strict grammar adds - variables do not nest, "**" only as the last segment (of the template or of a
   variable), literals are not "*" / "**", and the verb rules (behind a literal the verb is what follows the LAST colon).
   That variables cannot nest is a property of the tokenizer (inside a variable '{' does not start a token), carried
   through the parser as the predicate [shaped]. *)
From Coq Require Import Lia NArith List Bool.
From GB Require Import Model.Template Model.TemplateRun Model.Strict Proofs.MDFilterProofs Proofs.TemplateParseProofs Proofs.TemplateSoundProofs.
Import ListNotations.
Open Scope N_scope.

(* ================= literals: fuel, splitting at a colon ================= *)
Lemma pchars_fuel : forall f1 f2 s, (length s <= f1)%nat -> (length s <= f2)%nat -> pchars_f f1 s = pchars_f f2 s.
Proof.
  induction f1 as [|f1 IH]; intros f2 s L1 L2.
  - destruct s; [|cbn in L1; lia]. destruct f2; reflexivity.
  - destruct f2 as [|f2]; [destruct s; [reflexivity | cbn in L2; lia]|].
    destruct s as [|c r]; [reflexivity|]. cbn [pchars_f]. cbn [length] in L1, L2.
    destruct (c =? c_pct).
    + destruct r as [|h1 [|h2 r']]; try reflexivity. cbn [length] in L1, L2. rewrite (IH f2 r'); [reflexivity | lia | lia].
    + rewrite (IH f2 r); [reflexivity | lia | lia].
Qed.

Lemma is_hex_colon : is_hex c_colon = false. Proof. reflexivity. Qed.

Lemma pchars_colon b : forall f a, (length a <= f)%nat ->
  pchars_f (f + S (length b)) (a ++ c_colon :: b) = pchars_f f a && is_literal b.
Proof.
  induction f as [|f IH]; intros a L.
  - destruct a; [|cbn in L; lia]. cbn [app Nat.add pchars_f]. change (c_colon =? c_pct) with false. cbv iota.
    change (is_pchar_plain c_colon) with true. reflexivity.
  - destruct a as [|c r].
    + cbn [app Nat.add pchars_f]. change (c_colon =? c_pct) with false. cbv iota. change (is_pchar_plain c_colon) with true.
      cbn [andb]. unfold is_literal. apply pchars_fuel; lia.
    + cbn [length] in L. cbn [app Nat.add pchars_f]. destruct (c =? c_pct).
      * destruct r as [|h1 [|h2 r']].
        -- cbn [app]. destruct b; [reflexivity|]. rewrite is_hex_colon. reflexivity.
        -- cbn [app]. rewrite is_hex_colon, andb_false_r. reflexivity.
        -- cbn [app length] in *. rewrite (IH r') by lia. rewrite !andb_assoc. reflexivity.
      * rewrite (IH r) by lia. rewrite andb_assoc. reflexivity.
Qed.

Lemma lit_colon_split a b : is_literal (a ++ c_colon :: b) = is_literal a && is_literal b.
Proof.
  unfold is_literal at 1. rewrite app_length. cbn [length]. rewrite (pchars_colon b (length a) a) by lia. reflexivity.
Qed.

(* ================= last_index_of ================= *)
Lemma last_index_some c : forall t j k, exists i, last_index_of c t j (Some k) = Some i.
Proof.
  induction t as [|x r IH]; intros j k; cbn [last_index_of]; [eexists; reflexivity|].
  destruct (x =? c); apply IH.
Qed.
Lemma last_index_none c : forall t j, last_index_of c t j None = None -> forallb (fun x => negb (x =? c)) t = true.
Proof.
  induction t as [|x r IH]; intros j H; [reflexivity|]. cbn [last_index_of] in H. cbn [forallb].
  destruct (x =? c) eqn:E.
  - destruct (last_index_some c r (S j) j) as [i Hi]. rewrite Hi in H. discriminate.
  - cbn [negb andb]. exact (IH _ H).
Qed.
Lemma last_index_last c : forall t j acc i, last_index_of c t j acc = Some i ->
  (acc = Some i /\ forallb (fun x => negb (x =? c)) t = true) \/
  ((j <= i)%nat /\ t = firstn (i - j) t ++ c :: skipn (S (i - j)) t /\ forallb (fun x => negb (x =? c)) (skipn (S (i - j)) t) = true).
Proof.
  induction t as [|x r IH]; intros j acc i H; cbn [last_index_of] in H; [left; split; [exact H | reflexivity]|].
  destruct (IH _ _ _ H) as [[A NC]|(L & S' & NC)].
  - destruct (x =? c) eqn:E.
    + injection A as <-. apply N.eqb_eq in E. subst x. right. rewrite Nat.sub_diag. split; [lia|]. split; [reflexivity | exact NC].
    + left. split; [exact A|]. cbn [forallb]. rewrite E. exact NC.
  - right. split; [lia|]. replace (i - j)%nat with (S (i - S j)) by lia. cbn [firstn skipn app]. split; [f_equal; exact S' | exact NC].
Qed.

(* ================= the shape of a token sequence ================= *)
(* a delimiter token of the tokenizer state *)
Definition is_dtok (st : nat) (t : bytes) : option N :=
  match t with [d] => if is_delim st d then Some d else None | _ => None end.
(* what the tokenizer (plus the end marker) can produce from state [st]; [ar]: the previous token was a run of
   non-delimiters, so a delimiter (or the end) must follow *)
Fixpoint shaped (st : nat) (ar : bool) (toks : list bytes) : Prop :=
  match toks with
  | [] => True
  | t :: r => match is_dtok st t with
              | Some d => shaped (next_state st d) false r
              | None => (ar = false /\ shaped st true r) \/ t = eof
              end
  end.

Lemma is_dtok_run st t : t <> [] -> forallb (fun c => negb (is_delim st c)) t = true -> is_dtok st t = None.
Proof.
  intros NE H. destruct t as [|d [|e r]]; [contradiction | | reflexivity].
  cbn [forallb] in H. rewrite andb_true_r in H. apply negb_true_iff in H. cbn [is_dtok]. rewrite H. reflexivity.
Qed.

Lemma scan_shaped : forall s st cur,
  (cur = [] -> shaped st false (scan st s cur)) /\
  (cur <> [] -> forallb (fun c => negb (is_delim st c)) cur = true ->
   exists t r, scan st s cur = t :: r /\ is_dtok st t = None /\ shaped st true r).
Proof.
  induction s as [|c s IH]; intros st cur.
  - split.
    + intros ->. exact I.
    + intros NE ND. cbn [scan]. destruct cur as [|x cur']; [contradiction|]. exists (rev (x :: cur')), []. split; [reflexivity|]. split; [|exact I].
      apply is_dtok_run; [apply rev_ne|]. rewrite forallb_forall in *. intros y Hy. apply ND. apply in_rev. exact Hy.
  - cbn [scan]. destruct (is_delim st c) eqn:D.
    + assert (TAIL : shaped st true ([c] :: scan (next_state st c) s []) /\ shaped st false ([c] :: scan (next_state st c) s [])).
      { cbn [shaped is_dtok]. rewrite D. split; apply (proj1 (IH (next_state st c) [])); reflexivity. }
      split.
      * intros ->. cbn [app]. exact (proj2 TAIL).
      * intros NE ND. destruct cur as [|x cur']; [contradiction|]. exists (rev (x :: cur')), ([c] :: scan (next_state st c) s []).
        split; [reflexivity|]. split; [|exact (proj1 TAIL)].
        apply is_dtok_run; [apply rev_ne|]. rewrite forallb_forall in *. intros y Hy. apply ND. apply in_rev. exact Hy.
    + assert (ND' : forallb (fun x => negb (is_delim st x)) cur = true -> forallb (fun x => negb (is_delim st x)) (c :: cur) = true).
      { intros H. cbn [forallb]. rewrite D, H. reflexivity. }
      destruct (IH st (c :: cur)) as [_ STEP].
      split.
      * intros ->. destruct (STEP ltac:(discriminate) (ND' eq_refl)) as (t & r & E & DT & SH). rewrite E. cbn [shaped]. rewrite DT. left. auto.
      * intros NE ND. exact (STEP ltac:(discriminate) (ND' ND)).
Qed.

Lemma shaped_eof : forall toks st ar, shaped st ar toks -> shaped st ar (toks ++ [eof]).
Proof.
  induction toks as [|t r IH]; intros st ar H.
  - cbn [app shaped]. replace (is_dtok st eof) with (@None N); [right; reflexivity|].
    unfold eof, is_dtok. destruct st as [|[|st]]; reflexivity.
  - cbn [app shaped] in *. destruct (is_dtok st t).
    + apply IH, H.
    + destruct H as [[A H]|E]; [left; split; [exact A | apply IH, H] | right; exact E].
Qed.

Lemma shaped_dtok st ar t r d : is_dtok st t = Some d -> shaped st ar (t :: r) -> shaped (next_state st d) false r.
Proof. intros DT SH. cbn [shaped] in SH. rewrite DT in SH. exact SH. Qed.
Lemma shaped_none st ar t r : is_dtok st t = None -> shaped st ar (t :: r) -> (ar = false /\ shaped st true r) \/ t = eof.
Proof. intros DT SH. cbn [shaped] in SH. rewrite DT in SH. exact SH. Qed.

(* ================= the restrictions of the strict grammar ================= *)
Definition is_deep (s : seg) : bool := match s with SDeep => true | _ => false end.
Definition is_var (s : seg) : bool := match s with SVar _ _ => true | _ => false end.
Fixpoint deep_only_last (l : list seg) : bool :=
  match l with [] => true | s :: r => match r with [] => true | _ => negb (is_deep s) && deep_only_last r end end.
Fixpoint multi_only_last (l : list seg) : bool :=
  match l with [] => true | s :: r => match r with [] => true | _ => negb (is_multi s) && multi_only_last r end end.
(* a segment of the strict language: good_seg (TemplateRun.v: flat segments inside variables, identifiers, literals that
   are neither empty nor "*" / "**") and "**" only at the end of a variable *)
Definition st_seg_ok (s : seg) : bool := good_seg s && match s with SVar _ inner => deep_only_last inner | _ => true end.

Definition level_ok (st : nat) (segs : list seg) : Prop :=
  match st with
  | 2%nat => forallb good_flat segs = true /\ deep_only_last segs = true
  | _ => forallb st_seg_ok segs = true /\ multi_only_last segs = true
  end.

Lemma flat_multi s : good_flat s = true -> is_multi s = is_deep s.
Proof. destruct s; try reflexivity. discriminate. Qed.

(* ================= field paths: the strict parser's equals the routing parser's on non-empty tokens ================= *)
Lemma st_ident_ne t : t <> [] -> st_ident t = is_ident t.
Proof. destruct t; [contradiction | reflexivity]. Qed.
Lemma st_fpr_eq : forall fuel toks acc, Forall ne toks -> st_field_path_rest fuel toks acc = gw_field_path_rest fuel toks acc.
Proof.
  induction fuel as [|f IH]; intros toks acc NE; [reflexivity|]. cbn [st_field_path_rest gw_field_path_rest].
  destruct toks as [|d r]; [reflexivity|]. destruct (tok_is c_dot d); [|reflexivity].
  destruct r as [|c r']; [reflexivity|]. inversion NE as [|? ? _ Nr]; subst. inversion Nr as [|? ? Nc Nr']; subst.
  rewrite (st_ident_ne c Nc). destruct (is_ident c); [apply IH; exact Nr' | reflexivity].
Qed.
Lemma st_fp_eq toks : Forall ne toks -> st_field_path toks = gw_field_path toks.
Proof.
  intros NE. unfold st_field_path, gw_field_path. destruct toks as [|c r]; [reflexivity|]. inversion NE as [|? ? Nc Nr]; subst.
  rewrite (st_ident_ne c Nc). destruct (is_ident c); [apply st_fpr_eq; exact Nr | reflexivity].
Qed.

Lemma delim1_not_ident d : is_delim 1 d = true -> is_ident [d] = false.
Proof.
  cbn [is_delim]. intros H. apply orb_true_iff in H. destruct H as [H|H]; [apply orb_true_iff in H; destruct H as [H|H]|];
    apply N.eqb_eq in H; subst d; reflexivity.
Qed.
Lemma delim2_not_ident d : is_delim 2 d = true -> is_ident [d] = false.
Proof. cbn [is_delim]. intros H. apply orb_true_iff in H. destruct H as [H|H]; apply N.eqb_eq in H; subst d; reflexivity. Qed.
Lemma delim02_not_literal st d : (st = 0 \/ st = 2)%nat -> is_delim st d = true -> is_literal [d] = false.
Proof.
  intros [-> | ->] H; cbn [is_delim] in H; apply orb_true_iff in H; destruct H as [H|H]; apply N.eqb_eq in H; subst d; reflexivity.
Qed.

(* the shape after a field path read in state 1: the last token was an identifier *)
Lemma fpr_shaped : forall fuel toks acc path rest, Forall ne toks -> shaped 1 true toks ->
  gw_field_path_rest fuel toks acc = Some (path, rest) -> shaped 1 true rest.
Proof.
  induction fuel as [|f IH]; intros toks acc path rest NE SH H; cbn [gw_field_path_rest] in H; [discriminate|].
  destruct toks as [|d r]; [injection H as <- <-; exact I|].
  destruct (tok_is c_dot d) eqn:D; [|injection H as <- <-; exact SH].
  apply tok_is_eq in D. subst d. apply (shaped_dtok 1 true [c_dot] r c_dot eq_refl) in SH. change (next_state 1 c_dot) with 1%nat in SH.
  destruct r as [|c r']; [discriminate|]. destruct (is_ident c) eqn:Ic; [|discriminate].
  inversion NE as [|? ? _ Nr]; subst. inversion Nr as [|? ? Nc Nr']; subst.
  destruct (is_dtok 1 c) as [d|] eqn:DT.
  - exfalso. unfold is_dtok in DT. destruct c as [|x [|y c']]; try discriminate. destruct (is_delim 1 x) eqn:DX; [|discriminate].
    rewrite (delim1_not_ident x DX) in Ic. discriminate.
  - destruct (shaped_none _ _ _ _ DT SH) as [[_ SH']|E]; [exact (IH _ _ _ _ Nr' SH' H)|]. subst c. discriminate.
Qed.
Lemma fp_shaped toks path rest : Forall ne toks -> shaped 1 false toks -> gw_field_path toks = Some (path, rest) -> shaped 1 true rest.
Proof.
  unfold gw_field_path. intros NE SH H. destruct toks as [|c r]; [discriminate|]. destruct (is_ident c) eqn:Ic; [|discriminate].
  inversion NE as [|? ? Nc Nr]; subst. destruct (is_dtok 1 c) as [d|] eqn:DT.
  - exfalso. unfold is_dtok in DT. destruct c as [|x [|y c']]; try discriminate. destruct (is_delim 1 x) eqn:DX; [|discriminate].
    rewrite (delim1_not_ident x DX) in Ic. discriminate.
  - destruct (shaped_none _ _ _ _ DT SH) as [[_ SH']|E]; [exact (fpr_shaped _ _ _ _ _ Nr SH' H)|]. subst c. discriminate.
Qed.

(* ================= segments ================= *)
Definition st_inner_sound (inner : list bytes -> option (list seg * bool * list bytes)) : Prop :=
  forall st toks segs m rest, (st = 0 \/ st = 2)%nat -> Forall ne toks -> shaped st false toks ->
    inner toks = Some (segs, m, rest) ->
    exists used txts ar, toks = used ++ rest /\ Rsegs segs txts /\ txts <> [] /\ concat used = join_with c_slash txts /\
                         shaped st ar rest /\ level_ok st segs /\ m = is_multi (last segs SWild).

(* a token that is not a delimiter of the state and not the end marker, read in a state-0/2 position *)
Lemma shaped_run st t r : shaped st false (t :: r) -> is_dtok st t = None -> t <> eof -> shaped st true r.
Proof. intros SH DT NE. destruct (shaped_none _ _ _ _ DT SH) as [[_ SH']|E]; [exact SH' | contradiction]. Qed.

Lemma Rsegs_ne segs txts : Rsegs segs txts -> txts <> [] -> segs <> [].
Proof. destruct segs; [destruct txts; [contradiction | intros []] | discriminate]. Qed.

Lemma st_segment_sound inner st toks sg m rest : st_inner_sound inner -> (st = 0 \/ st = 2)%nat -> Forall ne toks -> shaped st false toks ->
  st_segment inner toks = Some (sg, m, rest) ->
  exists used txt ar, toks = used ++ rest /\ Rseg sg txt /\ concat used = txt /\ shaped st ar rest /\
                      (st = 2%nat -> good_flat sg = true) /\ (st = 0%nat -> st_seg_ok sg = true) /\ m = is_multi sg.
Proof.
  intros IS ST NE SH. unfold st_segment. destruct toks as [|t r]; [intros X; discriminate X|].
  inversion NE as [|? ? Nt Nr]; subst.
  destruct (tok_is c_star t) eqn:T1.
  { intros H. injection H as <- <- <-. apply tok_is_eq in T1. subst t. exists [[c_star]], [c_star], true.
    split; [reflexivity|]. split; [reflexivity|]. split; [reflexivity|]. split.
    - apply (shaped_run st [c_star] r SH); [destruct ST as [-> | ->]; reflexivity | discriminate].
    - auto. }
  destruct (bytes_eqb t s_deep) eqn:T2.
  { intros H. injection H as <- <- <-. apply bytes_eqb_eq in T2. subst t. exists [s_deep], s_deep, true.
    split; [reflexivity|]. split; [reflexivity|]. split; [reflexivity|]. split.
    - apply (shaped_run st s_deep r SH); [reflexivity | discriminate].
    - auto. }
  destruct (is_literal t) eqn:T3.
  { intros H. injection H as <- <- <-. exists [t], t, true.
    assert (GL : good_lit t = true).
    { unfold good_lit. rewrite T3. unfold tok_is in T1. rewrite T1, T2. destruct t; [contradiction | reflexivity]. }
    split; [reflexivity|]. split; [cbn; auto|]. split; [cbn; apply app_nil_r|]. split.
    - apply (shaped_run st t r SH).
      + destruct (is_dtok st t) as [d|] eqn:DT; [|reflexivity]. exfalso. unfold is_dtok in DT. destruct t as [|x [|y t']]; try discriminate.
        destruct (is_delim st x) eqn:DX; [|discriminate]. rewrite (delim02_not_literal st x ST DX) in T3. discriminate.
      + intros ->. discriminate.
    - split; [intros _; exact GL|]. split; [intros _; unfold st_seg_ok; cbn [good_seg good_flat]; rewrite GL; reflexivity | reflexivity]. }
  destruct (tok_is c_lbrace t) eqn:T4; [|intros X; discriminate X]. apply tok_is_eq in T4. subst t.
  rewrite (st_fp_eq r Nr).
  destruct (gw_field_path r) as [[path r1]|] eqn:FP; [|intros X; discriminate X].
  destruct ST as [-> | ->].
  2:{ (* inside a variable '{' is an ordinary run: what follows is a delimiter or the end, never an identifier *)
      exfalso. assert (SH2 : shaped 2 true r) by (apply (shaped_run 2 [c_lbrace] r SH); [reflexivity | discriminate]).
      unfold gw_field_path in FP. destruct r as [|c r']; [discriminate|]. destruct (is_ident c) eqn:Ic; [|discriminate].
      destruct (is_dtok 2 c) as [d|] eqn:DT.
      - unfold is_dtok in DT. destruct c as [|x [|y c']]; try discriminate. destruct (is_delim 2 x) eqn:DX; [|discriminate].
        rewrite (delim2_not_ident x DX) in Ic. discriminate.
      - destruct (shaped_none _ _ _ _ DT SH2) as [[X _]|E]; [discriminate|]. subst c. discriminate. }
  assert (SH1 : shaped 1 false r) by exact (shaped_dtok 0 false [c_lbrace] r c_lbrace eq_refl SH).
  pose proof (fp_shaped r path r1 Nr SH1 FP) as SHp.
  destruct (field_path_sound _ _ _ FP) as (usedp & E1 & P1 & P2 & P3).
  destruct r1 as [|e r2]; [intros X; discriminate X|].
  assert (Nr2 : Forall ne r2).
  { rewrite E1 in Nr. apply Forall_app_r in Nr. inversion Nr; assumption. }
  destruct (tok_is c_eq e) eqn:Te.
  - apply tok_is_eq in Te. subst e.
    assert (SH2 : shaped 2 false r2) by exact (shaped_dtok 1 true [c_eq] r2 c_eq eq_refl SHp).
    destruct (inner r2) as [[[segs multi] r3]|] eqn:IN; [|intros X; discriminate X].
    destruct (IS 2%nat _ _ _ _ (or_intror eq_refl) Nr2 SH2 IN) as (usedi & txts & ar & E2 & RS & TN & CI & SH3 & [LF LD] & MM).
    destruct r3 as [|c r4]; [intros X; discriminate X|]. destruct (tok_is c_rbrace c) eqn:Tc; [|intros X; discriminate X].
    apply tok_is_eq in Tc. subst c. intros H. injection H as <- <- <-.
    exists ([c_lbrace] :: usedp ++ [c_eq] :: usedi ++ [[c_rbrace]]),
           (c_lbrace :: join_with c_dot path ++ c_eq :: join_with c_slash txts ++ [c_rbrace]), false.
    split; [rewrite E1, E2; cbn; rewrite <- !app_assoc; cbn; rewrite <- !app_assoc; reflexivity|].
    split; [apply Rseg_var; split; [exact P1|]; split; [exact P2|]; right; exists txts; auto|].
    split; [cbn; rewrite !concat_app; cbn; rewrite !concat_app; cbn; rewrite P3, CI; reflexivity|].
    split; [exact (shaped_dtok 2 ar [c_rbrace] r4 c_rbrace eq_refl SH3)|]. split; [intros X; discriminate X|].
    assert (SN : segs <> []) by exact (Rsegs_ne _ _ RS TN).
    split.
    + intros _. unfold st_seg_ok. cbn [good_seg]. rewrite P2, LF, LD. destruct path; [contradiction|]. destruct segs; [contradiction | reflexivity].
    + rewrite MM. cbn [is_multi]. assert (GF : good_flat (last segs SWild) = true).
      { rewrite forallb_forall in LF. apply LF. clear -SN. induction segs as [|a [|b l] IH]; [contradiction | left; reflexivity | right; apply IH; discriminate]. }
      rewrite (flat_multi _ GF). destruct (last segs SWild); reflexivity.
  - destruct (tok_is c_rbrace e) eqn:Tr; [|intros X; discriminate X]. apply tok_is_eq in Tr. subst e.
    intros H. injection H as <- <- <-.
    exists ([c_lbrace] :: usedp ++ [[c_rbrace]]), (c_lbrace :: join_with c_dot path ++ [c_rbrace]), false.
    split; [rewrite E1; cbn; rewrite <- app_assoc; reflexivity|].
    split; [apply Rseg_var; split; [exact P1|]; split; [exact P2|]; left; auto|].
    split; [cbn; rewrite concat_app; cbn; rewrite P3; reflexivity|].
    split; [exact (shaped_dtok 1 true [c_rbrace] r2 c_rbrace eq_refl SHp)|]. split; [intros X; discriminate X|]. split; [|reflexivity].
    intros _. unfold st_seg_ok. cbn [good_seg]. rewrite P2. destruct path; [contradiction | reflexivity].
Qed.

Lemma last_cons_ne {A} (a : A) l d : l <> [] -> last (a :: l) d = last l d.
Proof. destruct l; [contradiction | reflexivity]. Qed.

Theorem st_segments_sound : forall fuel, st_inner_sound (st_segments fuel).
Proof.
  induction fuel as [|f IH]; intros st toks segs m rest ST NE SH H; cbn [st_segments] in H; [discriminate|].
  destruct (st_segment (st_segments f) toks) as [[[s ms] r]|] eqn:SG; [|discriminate].
  destruct (st_segment_sound _ _ _ _ _ _ IH ST NE SH SG) as (used & txt & ar & E1 & RS & CU & SHr & F2 & F0 & MS).
  assert (ONE : exists used0 txts ar0, toks = used0 ++ r /\ Rsegs [s] txts /\ txts <> [] /\ concat used0 = join_with c_slash txts /\
                                     shaped st ar0 r /\ level_ok st [s] /\ ms = is_multi (last [s] SWild)).
  { exists used, [txt], ar. split; [exact E1|]. split; [cbn; auto|]. split; [discriminate|]. split; [cbn; rewrite app_nil_r; exact CU|].
    split; [exact SHr|]. split; [|exact MS].
    destruct ST as [-> | ->]; cbn [level_ok forallb deep_only_last multi_only_last]; [rewrite (F0 eq_refl) | rewrite (F2 eq_refl)]; auto. }
  destruct ms.
  { injection H as <- <- <-. exact ONE. }
  destruct r as [|t r'].
  { injection H as <- <- <-. exact ONE. }
  destruct (tok_is c_slash t) eqn:Ts.
  - apply tok_is_eq in Ts. subst t.
    destruct (st_segments f r') as [[[more m'] r'']|] eqn:MORE; [|discriminate]. injection H as <- <- <-.
    assert (Nr' : Forall ne r').
    { rewrite E1 in NE. apply Forall_app_r in NE. inversion NE; assumption. }
    assert (SH' : shaped st false r').
    { destruct ST as [-> | ->]; [exact (shaped_dtok 0 ar [c_slash] r' c_slash eq_refl SHr) | exact (shaped_dtok 2 ar [c_slash] r' c_slash eq_refl SHr)]. }
    destruct (IH st _ _ _ _ ST Nr' SH' MORE) as (used2 & txts2 & ar2 & E2 & RS2 & TN2 & CU2 & SH2 & LV2 & MM2).
    assert (MN : more <> []) by exact (Rsegs_ne _ _ RS2 TN2).
    exists (used ++ [c_slash] :: used2), (txt :: txts2), ar2. split; [rewrite E1, E2, <- app_assoc; reflexivity|].
    split; [cbn; auto|]. split; [discriminate|].
    split; [rewrite concat_app; cbn [concat]; rewrite CU, CU2; destruct txts2 as [|b rr]; [congruence | reflexivity]|].
    split; [exact SH2|]. split; [|rewrite (last_cons_ne s more SWild MN); exact MM2].
    destruct ST as [-> | ->]; cbn [level_ok] in *; destruct LV2 as [LA LB].
    + cbn [forallb]. rewrite (F0 eq_refl), LA. split; [reflexivity|]. destruct more as [|x more']; [contradiction|].
      change (multi_only_last (s :: x :: more')) with (negb (is_multi s) && multi_only_last (x :: more')). rewrite <- MS, LB. reflexivity.
    + cbn [forallb]. rewrite (F2 eq_refl), LA. split; [reflexivity|]. destruct more as [|x more']; [contradiction|].
      change (deep_only_last (s :: x :: more')) with (negb (is_deep s) && deep_only_last (x :: more')).
      rewrite <- (flat_multi s (F2 eq_refl)), <- MS, LB. reflexivity.
  - injection H as <- <- <-. exact ONE.
Qed.

(* ================= the language of the strict grammar, on strings ================= *)
Definition StrictLang (t : template) (s : bytes) : Prop :=
  is_literal (t_verb t) = true /\
  ((t_segs t = [SLit []] /\ no_colon (t_verb t) = true /\
    (s = c_slash :: c_colon :: t_verb t \/ (t_verb t = [] /\ s = [c_slash])))
   \/
   (forallb st_seg_ok (t_segs t) = true /\ multi_only_last (t_segs t) = true /\
    exists txts, Rsegs (t_segs t) txts /\ txts <> [] /\
      ((s = c_slash :: join_with c_slash txts ++ c_colon :: t_verb t /\
        (is_var (last (t_segs t) SWild) = true \/ no_colon (t_verb t) = true))
       \/ (t_verb t = [] /\ s = c_slash :: join_with c_slash txts /\ no_colon (tok_flat (last (t_segs t) SWild)) = true)))).

(* ---- list lemmas ---- *)
Lemma multi_only_last_snoc : forall l x y, multi_only_last (l ++ [x]) = multi_only_last (l ++ [y]).
Proof.
  induction l as [|a l IH]; intros x y; [reflexivity|]. cbn [app].
  destruct l as [|b l']; [reflexivity|].
  change (multi_only_last (a :: (b :: l') ++ [x])) with (negb (is_multi a) && multi_only_last ((b :: l') ++ [x])).
  change (multi_only_last (a :: (b :: l') ++ [y])) with (negb (is_multi a) && multi_only_last ((b :: l') ++ [y])).
  rewrite (IH x y). reflexivity.
Qed.
Lemma Rsegs_snoc : forall segs txts, Rsegs segs txts -> segs <> [] ->
  Rsegs (removelast segs) (removelast txts) /\ Rseg (last segs SWild) (last txts []) /\ txts = removelast txts ++ [last txts []].
Proof.
  induction segs as [|a segs IH]; intros txts R NE; [contradiction|].
  destruct txts as [|t txts]; [destruct R|]. destruct R as [Ra R].
  destruct segs as [|b segs'].
  - destruct txts; [|destruct R]. cbn. auto.
  - destruct txts as [|t2 txts']; [destruct R|].
    destruct (IH (t2 :: txts') R ltac:(discriminate)) as (R1 & R2 & R3).
    change (removelast (a :: b :: segs')) with (a :: removelast (b :: segs')).
    change (removelast (t :: t2 :: txts')) with (t :: removelast (t2 :: txts')).
    change (last (a :: b :: segs') SWild) with (last (b :: segs') SWild).
    change (last (t :: t2 :: txts') []) with (last (t2 :: txts') []).
    split; [cbn; auto|]. split; [exact R2|]. cbn [app]. f_equal. exact R3.
Qed.
Lemma Rsegs_app : forall a ta b tb, Rsegs a ta -> Rsegs b tb -> Rsegs (a ++ b) (ta ++ tb).
Proof.
  induction a as [|x a IH]; intros ta b tb Ra Rb; destruct ta as [|t ta]; try destruct Ra; [exact Rb|].
  cbn [app]. split; [assumption | apply IH; assumption].
Qed.
Lemma join_snoc sep : forall l x y, join_with sep (l ++ [x ++ y]) = join_with sep (l ++ [x]) ++ y.
Proof.
  intros l x y. destruct l as [|a l]; [cbn; rewrite !app_nil_r; reflexivity|].
  cbn [app join_with]. rewrite <- app_assoc. f_equal.
  induction l as [|b l IH]; cbn [app flat_map]; [rewrite !app_nil_r; reflexivity|].
  rewrite IH. rewrite <- app_assoc. reflexivity.
Qed.
Lemma forallb_removelast {A} (f : A -> bool) l : forallb f l = true -> forallb f (removelast l) = true.
Proof.
  induction l as [|a l IH]; intros H; [reflexivity|]. cbn [forallb] in H. apply andb_true_iff in H. destruct H as [Ha H].
  destruct l; [reflexivity|]. change (removelast (a :: a0 :: l)) with (a :: removelast (a0 :: l)). cbn [forallb]. rewrite Ha. exact (IH H).
Qed.
Lemma in_last {A} (l : list A) d : l <> [] -> In (last l d) l.
Proof. induction l as [|a [|b l] IH]; intros NE; [contradiction | left; reflexivity | right; apply IH; discriminate]. Qed.

(* the end marker occurs only at the end of the token list of a NUL-free text *)
Lemma eof_unique (toks0 pre post : list bytes) : ~ In 0 (concat toks0) -> toks0 ++ [eof] = pre ++ eof :: post -> pre = toks0 /\ post = [].
Proof.
  revert pre. induction toks0 as [|x toks0 IH]; intros pre NZ E.
  - destruct pre as [|p pre]; [cbn in E; injection E as <-; auto|]. cbn in E. injection E as _ E. destruct pre; discriminate.
  - destruct pre as [|p pre].
    + cbn in E. injection E as E1 _. subst x. exfalso. apply NZ. unfold eof. cbn. left. reflexivity.
    + cbn in E. injection E as <- E. assert (NZ' : ~ In 0 (concat toks0)) by (intros I0; apply NZ; cbn; apply in_or_app; right; exact I0).
      destruct (IH pre NZ' E) as [-> ->]. auto.
Qed.

(* ================= the whole parser ================= *)
Lemma st_finish_some segs verb lft t : st_finish segs verb lft = Some t ->
  t = {| t_segs := segs; t_verb := verb |} /\ exists post, lft = eof :: post.
Proof.
  unfold st_finish. destruct lft as [|e post]; [discriminate|]. destruct (bytes_eqb e eof) eqn:E; [|discriminate].
  apply bytes_eqb_eq in E. subst e. intros H. injection H as <-. split; [reflexivity|]. eexists; reflexivity.
Qed.
Lemma finish_eof toks0 pre lft segs verb t : ~ In 0 (concat toks0) -> toks0 ++ [eof] = pre ++ lft ->
  st_finish segs verb lft = Some t -> t = {| t_segs := segs; t_verb := verb |} /\ pre = toks0.
Proof.
  intros NZ E H. destruct (st_finish_some _ _ _ _ H) as [-> [post ->]]. destruct (eof_unique _ _ _ NZ E) as [-> _]. auto.
Qed.

Lemma snoc_last (segs : list seg) : segs <> [] -> segs = removelast segs ++ [last segs SWild].
Proof. apply removelast_last_app. Qed.

(* replacing the last segment *)
Lemma replace_last_ok segs x : segs <> [] -> forallb st_seg_ok segs = true -> multi_only_last segs = true -> st_seg_ok x = true ->
  forallb st_seg_ok (removelast segs ++ [x]) = true /\ multi_only_last (removelast segs ++ [x]) = true.
Proof.
  intros NE LA LB OX. split.
  - rewrite forallb_app, (forallb_removelast _ _ LA). cbn [forallb]. rewrite OX. reflexivity.
  - rewrite (multi_only_last_snoc _ x (last segs SWild)), <- (snoc_last segs NE). exact LB.
Qed.

Theorem st_parse_sound s t : st_parse s = Some t -> StrictLang t s.
Proof.
  unfold st_parse. destruct s as [|c path]; [discriminate|].
  destruct ((c =? c_slash) && negb (existsb (N.eqb 0) (c :: path))) eqn:G; [|discriminate].
  apply andb_prop in G as [Gc Gn]. apply N.eqb_eq in Gc. subst c. apply negb_true_iff in Gn.
  assert (NONUL : ~ In 0 path).
  { intros I0. assert (X : existsb (N.eqb 0) (c_slash :: path) = true).
    { apply existsb_exists. exists 0. split; [right; exact I0 | reflexivity]. }
    congruence. }
  unfold st_tokenize. set (toks0 := scan O path []).
  assert (C : concat toks0 = path) by (unfold toks0; rewrite scan_concat; reflexivity).
  assert (NE0 : Forall ne toks0) by apply scan_ne.
  assert (NZ : ~ In 0 (concat toks0)) by (rewrite C; exact NONUL).
  assert (SH0 : shaped 0 false (toks0 ++ [eof])) by (apply shaped_eof; apply (proj1 (scan_shaped path 0%nat [])); reflexivity).
  assert (NEall : Forall ne (toks0 ++ [eof])).
  { apply Forall_app. split; [exact NE0 | constructor; [discriminate | constructor]]. }
  remember (toks0 ++ [eof]) as toks eqn:ET. destruct toks as [|t0 tr]; [discriminate|].
  destruct (bytes_eqb t0 eof) eqn:EOF0.
  - (* the root *)
    intros H. injection H as <-. apply bytes_eqb_eq in EOF0. subst t0.
    assert (T0 : toks0 = []).
    { destruct toks0 as [|x toks1]; [reflexivity|]. exfalso. cbn in ET. injection ET as E1 _. subst x. apply NZ. unfold eof. cbn. left. reflexivity. }
    split; [reflexivity|]. left. cbn [t_segs t_verb]. split; [reflexivity|]. split; [reflexivity|]. right. split; [reflexivity|].
    rewrite <- C, T0. reflexivity.
  - destruct (st_segments (S (length (t0 :: tr))) (t0 :: tr)) as [[[segs mm] lft]|] eqn:SG; [|discriminate].
    destruct (st_segments_sound _ 0%nat _ _ _ _ (or_introl eq_refl) NEall SH0 SG) as (used & txts & ar & E1 & RS & TN & CU & _ & [LA LB] & _).
    assert (SN : segs <> []) by exact (Rsegs_ne _ _ RS TN).
    rewrite E1 in ET. symmetry in ET.
    destruct (Rsegs_snoc segs txts RS SN) as (RS1 & RSl & TXL).
    pose proof (in_last segs SWild SN) as INL.
    assert (OKL : st_seg_ok (last segs SWild) = true) by (rewrite forallb_forall in LA; exact (LA _ INL)).
    intros H. unfold st_template in H.
    destruct (last segs SWild) as [| |l|vp vinner] eqn:LS.
    + (* "*" *)
      destruct (finish_eof _ _ _ _ _ _ NZ ET H) as [-> ->]. split; [reflexivity|]. right. cbn [t_segs t_verb].
      split; [exact LA|]. split; [exact LB|]. exists txts. split; [exact RS|]. split; [exact TN|]. right.
      split; [reflexivity|]. split; [rewrite <- CU, C; reflexivity|]. rewrite LS. reflexivity.
    + (* "**" *)
      destruct (finish_eof _ _ _ _ _ _ NZ ET H) as [-> ->]. split; [reflexivity|]. right. cbn [t_segs t_verb].
      split; [exact LA|]. split; [exact LB|]. exists txts. split; [exact RS|]. split; [exact TN|]. right.
      split; [reflexivity|]. split; [rewrite <- CU, C; reflexivity|]. rewrite LS. reflexivity.
    + (* a literal: split at its last colon *)
      cbn [Rseg] in RSl. destruct RSl as (TL & LNE & LL).
      destruct (last_index_of c_colon l 0 None) as [i|] eqn:LI.
      * destruct (last_index_last _ _ _ _ _ LI) as [[X _]|(_ & SP & NC)]; [discriminate|]. rewrite Nat.sub_0_r in SP, NC.
        set (lit := firstn i l) in *. set (verb := skipn (S i) l) in *.
        assert (LSP : is_literal lit = true /\ is_literal verb = true).
        { rewrite SP, lit_colon_split in LL. apply andb_true_iff in LL. exact LL. }
        destruct LSP as [LLi LLv].
        assert (PATH : join_with c_slash txts = join_with c_slash (removelast txts ++ [lit]) ++ c_colon :: verb).
        { rewrite (f_equal (join_with c_slash) TXL), TL. rewrite SP at 1. apply join_snoc. }
        assert (FIN : forall x txt, st_seg_ok x = true -> Rseg x txt -> txt = lit ->
                  st_finish (removelast segs ++ [x]) verb lft = Some t -> StrictLang t (c_slash :: path)).
        { intros x txt OX RX -> HF. destruct (finish_eof _ _ _ _ _ _ NZ ET HF) as [-> EU]. split; [exact LLv|]. right. cbn [t_segs t_verb].
          destruct (replace_last_ok segs x SN LA LB OX) as [LA' LB'].
          split; [exact LA'|]. split; [exact LB'|]. exists (removelast txts ++ [lit]).
          split; [apply Rsegs_app; [exact RS1 | cbn; auto]|]. split; [destruct (removelast txts); discriminate|]. left.
          split; [rewrite <- PATH, <- CU, EU, C; reflexivity | right; exact NC]. }
        destruct (bytes_eqb lit [c_star]) eqn:B1.
        { apply bytes_eqb_eq in B1. exact (FIN SWild [c_star] eq_refl eq_refl (eq_sym B1) H). }
        destruct (bytes_eqb lit s_deep) eqn:B2.
        { apply bytes_eqb_eq in B2. exact (FIN SDeep s_deep eq_refl eq_refl (eq_sym B2) H). }
        destruct lit as [|l0 lit'] eqn:ELIT.
        -- (* nothing in front of the verb: only the root template *)
           destruct (1 <? length segs)%nat eqn:LEN; [discriminate|]. apply Nat.ltb_ge in LEN.
           assert (S1 : removelast segs = []).
           { destruct segs as [|a [|b segs']]; [contradiction | reflexivity | cbn in LEN; lia]. }
           rewrite S1 in H. cbn [app] in H.
           destruct (finish_eof _ _ _ _ _ _ NZ ET H) as [-> EU]. split; [exact LLv|]. left. cbn [t_segs t_verb].
           split; [reflexivity|]. split; [exact NC|]. left.
           assert (T1 : removelast txts = []).
           { rewrite S1 in RS1. destruct (removelast txts); [reflexivity | destruct RS1]. }
           rewrite <- C, <- EU, CU, PATH, T1. reflexivity.
        -- rewrite <- ELIT in *.
           assert (OX : st_seg_ok (SLit lit) = true).
           { unfold st_seg_ok. cbn [good_seg good_flat]. unfold good_lit. rewrite LLi, B1, B2, ELIT. reflexivity. }
           apply (FIN (SLit lit) lit OX); [cbn; repeat split; [rewrite ELIT; discriminate | exact LLi] | reflexivity | exact H].
      * destruct (finish_eof _ _ _ _ _ _ NZ ET H) as [-> ->]. split; [reflexivity|]. right. cbn [t_segs t_verb].
        split; [exact LA|]. split; [exact LB|]. exists txts. split; [exact RS|]. split; [exact TN|]. right.
        split; [reflexivity|]. split; [rewrite <- CU, C; reflexivity|]. rewrite LS. cbn [tok_flat]. exact (last_index_none _ _ _ LI).
    + (* a variable: a verb token may follow *)
      destruct lft as [|t1 r1]; [discriminate|].
      destruct (bytes_eqb t1 eof) eqn:E1'.
      * destruct (finish_eof _ _ _ _ _ _ NZ ET H) as [-> ->]. split; [reflexivity|]. right. cbn [t_segs t_verb].
        split; [exact LA|]. split; [exact LB|]. exists txts. split; [exact RS|]. split; [exact TN|]. right.
        split; [reflexivity|]. split; [rewrite <- CU, C; reflexivity|]. rewrite LS. reflexivity.
      * destruct (is_literal t1) eqn:LT; [|discriminate]. destruct t1 as [|c1 v]; [discriminate|].
        destruct (c1 =? c_colon) eqn:CC; [|discriminate]. apply N.eqb_eq in CC. subst c1.
        assert (ET' : toks0 ++ [eof] = (used ++ [c_colon :: v]) ++ r1) by (rewrite <- app_assoc; exact ET).
        destruct (finish_eof _ _ _ _ _ _ NZ ET' H) as [-> EU]. cbn [t_segs t_verb].
        assert (LV : is_literal v = true).
        { change (c_colon :: v) with ([] ++ c_colon :: v) in LT. rewrite lit_colon_split in LT. exact LT. }
        split; [exact LV|]. right. cbn [t_segs t_verb]. split; [exact LA|]. split; [exact LB|]. exists txts. split; [exact RS|]. split; [exact TN|]. left.
        split; [|left; rewrite LS; reflexivity].
        rewrite <- C, <- EU, concat_app, CU. cbn [concat]. rewrite app_nil_r. reflexivity.
Qed.

(* the theorem applies to concrete accepted strings (the hypothesis is met) - and pins their derivation *)
Definition st_ex_text : bytes :=  (* /v1/{name=shelves/*/**}:list *)
  [47;118;49;47;123;110;97;109;101;61;115;104;101;108;118;101;115;47;42;47;42;42;125;58;108;105;115;116].
Example st_ex_parsed : st_parse st_ex_text =
  Some {| t_segs := [SLit [118;49]; SVar [[110;97;109;101]] [SLit [115;104;101;108;118;101;115]; SWild; SDeep]]; t_verb := [108;105;115;116] |}.
Proof. vm_compute. reflexivity. Qed.
Example st_ex_in_language : exists t, st_parse st_ex_text = Some t /\ StrictLang t st_ex_text.
Proof. eexists. split; [exact st_ex_parsed | apply st_parse_sound, st_ex_parsed]. Qed.
(* nested variables and a deep wildcard that is not last are refused *)
Example st_ex_nested : st_parse [47;123;97;61;123;98;125;125] = None.       (* /{a={b}} *)
Proof. vm_compute. reflexivity. Qed.
Example st_ex_deep_mid : st_parse [47;42;42;47;97] = None.                  (* /**/a *)
Proof. vm_compute. reflexivity. Qed.
