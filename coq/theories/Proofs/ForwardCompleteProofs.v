(* C01, the "nothing is dropped" half: in a fault-free call (no context event, no adapter failure, a conformant
   target) a returned Forward has delivered ALL response messages, reports the target's final status, and - when the
   target's final item waited for the whole request stream - has delivered all requests and the half-close. *)
From GB Require Import Model.Forward Proofs.ForwardProofs.
From RecordUpdate Require Import RecordSet.
Import RecordSetNotations.
From Coq Require Import Lia.
Open Scope Z_scope.

Fixpoint term_of (l : list (nat * bool * outitem)) : option (nat * bool * outitem) :=
  match l with
  | [] => None
  | (n, b, OMsg _) :: r => term_of r
  | x :: _ => Some x
  end.
Definition exp_res (t : outitem) : res := match t with OErr e => RErr e | _ => RNil end.
Definition post (m : mpc) : bool := match m with MDClose _ | MDCancel _ | MDWait _ | MRet _ => true | _ => false end.
Definition res_of (m : mpc) : res := match m with MDClose r | MDCancel r | MDWait r | MRet r => r | _ => RNil end.
Definition fres (f : ferr) : res := match f with FIn (ESt e) | FOut (ESt e) => RErr e | FIn EEof | FOut EEof => RErr (-1) | FOk => RNil end.

Lemma term_at tr : forall p x n b it,
  firstn p (items tr) = map OMsg x -> nth_error tr p = Some (n, b, it) -> (forall m, it <> OMsg m) ->
  term_of tr = Some (n, b, it) /\ out_msgs tr = x.
Proof.
  induction tr as [|[[n0 b0] it0] tr IH]; intros p x n b it F N NM; [destruct p; discriminate|].
  destruct p as [|p].
  - cbn in N. injection N as -> -> ->. destruct x; [|discriminate]. destruct it; try (split; reflexivity). exfalso. eapply NM; reflexivity.
  - cbn in F, N. destruct x as [|m x]; [discriminate|]. cbn in F. injection F as -> F.
    destruct (IH p x n b it F N NM) as [T O]. cbn. rewrite T, O. split; reflexivity.
Qed.

Section FFree.
  Variable sc : script.
  Variables (tn : nat) (thc : bool) (tt : outitem).

  Record FF : Prop := {
    ff_ctx : ctx_kind sc = CtxNone;
    ff_isf : in_send_fail sc = None;
    ff_osf : out_send_fail sc = None;
    ff_open : open_res sc = OpenOk;
    ff_in : forall p e, nth_error (in_recv sc) p <> Some (IErr e);
    ff_in_unary : client_streaming sc = false -> exists m rest, in_recv sc = IMsg m :: rest;
    ff_out_unary : server_streaming sc = false ->
       (exists n b e rest, out_recv sc = (n, b, OErr e) :: rest) \/
       (exists n b m n' b' rest, out_recv sc = (n, b, OMsg m) :: (n', b', OEof) :: rest);
    ff_term : term_of (out_recv sc) = Some (tn, thc, tt)
  }.
  Hypothesis ff : FF.

  Inductive Ready (s : state) : Prop :=
    ready_intro : (tn <= length (sent_out s))%nat -> (thc = true -> (0 < close_send s)%nat) -> Ready s.
  Definition Good (f : ferr) (s : state) : Prop :=
    fres f = exp_res tt /\ sent_in s = out_msgs (out_recv sc) /\ Ready s.

  Definition FInv (s : state) : Prop :=
    fired s = CtxNone /\
    (post (mp s) = false -> cancel_called s = false /\ closed s = 0%nat) /\
    (post (mp s) = false -> match ip s with IPut f => f = FIn EEof | _ => True end /\
                            match islot s with Some f => f = FIn EEof | None => True end) /\
    (post (mp s) = false -> match op s with OPut f => Good f s | OUSend m => Ready s /\ tt = OEof /\ out_msgs (out_recv sc) = [m] | _ => True end /\
                            match oslot s with Some f => Good f s | None => True end) /\
    (post (mp s) = true -> op s = ODone /\ res_of (mp s) = exp_res tt /\ sent_in s = out_msgs (out_recv sc) /\ Ready s) /\
    (mp s = M0 -> in_pos s = 0%nat) /\ (mp s = MURecv -> in_pos s = 0%nat) /\
    (match op s with OURecv2 _ => out_pos s = 1%nat | _ => True end) /\
    (mp s = MURecv -> client_streaming sc = false).

  Lemma finv_init : FInv init.
  Proof. unfold FInv, init; cbn. repeat split; auto; discriminate. Qed.
End FFree.

Ltac spec_hyps :=
  repeat match goal with
  | K : ?b = ?b -> _ |- _ => specialize (K eq_refl)
  | K : true = false -> _ |- _ => clear K
  | K : false = true -> _ |- _ => clear K
  | K : _ /\ _ |- _ => destruct K
  | K : ?a <> ?b -> _ |- _ => let N := fresh in assert (N : a <> b) by discriminate; specialize (K N); clear N
  end.

Ltac conj := repeat match goal with |- _ /\ _ => split end.

Section FFree2.
  Variable sc : script.
  Variables (tn : nat) (thc : bool) (tt : outitem).
  Hypothesis ff : FF sc tn thc tt.

  Lemma ready_mono s s' : Ready tn thc s -> (length (sent_out s) <= length (sent_out s'))%nat ->
    (close_send s <= close_send s')%nat -> Ready tn thc s'.
  Proof. intros [A B] L C. split; [lia | intros H; specialize (B H); lia]. Qed.

  Lemma term_found s n b it x :
    firstn (out_pos s) (items (out_recv sc)) = map OMsg x -> nth_error (out_recv sc) (out_pos s) = Some (n, b, it) ->
    (forall m, it <> OMsg m) -> tn = n /\ thc = b /\ tt = it /\ out_msgs (out_recv sc) = x.
  Proof.
    intros F N NM. destruct (term_at _ _ _ _ _ _ F N NM) as [T O]. rewrite (ff_term _ _ _ _ ff) in T.
    injection T as -> -> ->. auto.
  Qed.

  Lemma enabled_ready s n b : ((n <=? length (sent_out s))%nat && (negb b || (0 <? close_send s)%nat))%bool = true ->
    tn = n -> thc = b -> Ready tn thc s.
  Proof.
    intros E -> ->. apply Bool.andb_true_iff in E as [E1 E2]. apply Nat.leb_le in E1. split; [exact E1|].
    intros ->. cbn [negb orb] in E2. apply Nat.ltb_lt in E2. exact E2.
  Qed.

  Lemma pos0 s x : firstn (out_pos s) (items (out_recv sc)) = [] ->
    nth_error (out_recv sc) (out_pos s) = Some x -> out_pos s = 0%nat.
  Proof. destruct (out_pos s); [reflexivity|]. destruct (out_recv sc); cbn; discriminate. Qed.

  Lemma unary_first_not_eof : server_streaming sc = false -> tt = OEof -> out_msgs (out_recv sc) = [] -> False.
  Proof.
    intros SS T O. pose proof (ff_term _ _ _ _ ff) as Ft.
    destruct (ff_out_unary _ _ _ _ ff SS) as [(n0 & b0 & e & rest & E)|(n0 & b0 & m0 & n' & b' & rest & E)]; rewrite E in *; cbn in *.
    - injection Ft as _ _ <-. discriminate.
    - discriminate.
  Qed.

  Lemma unary_second_is_eof s m n b it : server_streaming sc = false -> out_pos s = 1%nat ->
    firstn (out_pos s) (items (out_recv sc)) = [OMsg m] -> nth_error (out_recv sc) (out_pos s) = Some (n, b, it) -> it = OEof.
  Proof.
    intros SS P F N. rewrite P in *.
    destruct (ff_out_unary _ _ _ _ ff SS) as [(n0 & b0 & e & rest & E)|(n0 & b0 & m0 & n' & b' & rest & E)]; rewrite E in *; cbn in *.
    - discriminate.
    - injection N as _ _ <-. reflexivity.
  Qed.

  Lemma finv_step s l s' : Reach sc s -> FInv sc tn thc tt s -> In (l, s') (next sc s) -> FInv sc tn thc tt s'.
  Proof.
    intros R (I1 & I2 & I3 & I4 & I5 & I6a & I6 & I8 & I9) Hs.
    pose proof (struct_inv sc s R) as St. pose proof (data_inv sc s R) as Dt.
    pose proof St as (SA & SB & _ & _ & SI & SO & _).
    destruct Dt as (_ & _ & _ & _ & D5 & _ & D7 & _ & _ & D10 & D11). unfold live_o, pend_o, unary_pre in *.
    destruct ff as [Fc Fis Fos Fop Fin Fiu Fou Ft].
    step_cases Hs;
      try match goal with K : post (mp s) = _ -> _ |- _ => destruct (post (mp s)) eqn:P end;
      cbn [post] in *; spec_hyps;
      try congruence;
      unfold ctx_done in *;
      repeat match goal with
      | H : cancel_called s = false |- _ => rewrite H in *
      | H : closed s = 0%nat |- _ => rewrite H in *
      end;
      rewrite ?I1 in *; cbn [orb Nat.ltb Nat.leb] in *; rewrite ?Bool.andb_false_r in *; try discriminate;
      try congruence.
    all: repeat match goal with
         | |- context[match ?x with _ => _ end] => is_var x; destruct x
         | |- context[if client_streaming sc then _ else _] => destruct (client_streaming sc) eqn:?
         | |- context[if server_streaming sc then _ else _] => destruct (server_streaming sc) eqn:?
         | |- context[if is_eof_ferr ?f then _ else _] => destruct (is_eof_ferr f) eqn:?
         end.
    all: unfold FInv, Good in *; cbn in *; rewrite ?P in *; spec_hyps;
      repeat match goal with Q : ?x = _, H : context[match ?x with _ => _ end] |- _ => rewrite Q in H; cbn in H end;
      repeat match goal with Q : mp ?s0 = _ |- context[mp ?s0] => rewrite Q end; cbn;
      spec_hyps; subst;
      try match goal with
        | Hcs : client_streaming sc = false, Hp : in_pos ?s0 = 0%nat, Q : nth_error (in_recv sc) (in_pos ?s0) = Some _ |- _ =>
            destruct (Fiu Hcs) as (m0 & rest0 & Hin); rewrite Hin, Hp in Q; cbn in Q; try discriminate
        end;
      try (exfalso; eapply Fin; eassumption);
      try discriminate;
      rewrite ?app_nil_r in *;
      try match goal with
        | Qo : op ?s0 = OURecv2 ?m, F : firstn (out_pos ?s0) (items (out_recv sc)) = [OMsg ?m],
          Qn : nth_error (out_recv sc) (out_pos ?s0) = Some (?n, ?b, ?it) |- _ =>
            destruct (server_streaming sc) eqn:SS; [exfalso; apply D10; reflexivity|];
            pose proof (unary_second_is_eof s0 m n b it SS I8 F Qn) as ITE; try discriminate ITE;
            change [OMsg m] with (map OMsg [m]) in F
        end;
      try match goal with
        | F : firstn (out_pos ?s0) (items (out_recv sc)) = map OMsg ?x,
          Qn : nth_error (out_recv sc) (out_pos ?s0) = Some (?n, ?b, OEof),
          Qe : (_ && _)%bool = true |- _ =>
            destruct (term_found s0 n b OEof x F Qn ltac:(intros; discriminate)) as (T1 & T2 & T3 & T4);
            pose proof (enabled_ready s0 n b Qe T1 T2) as RDY
        | F : firstn (out_pos ?s0) (items (out_recv sc)) = map OMsg ?x,
          Qn : nth_error (out_recv sc) (out_pos ?s0) = Some (?n, ?b, OErr ?e),
          Qe : (_ && _)%bool = true |- _ =>
            destruct (term_found s0 n b (OErr e) x F Qn ltac:(intros; discriminate)) as (T1 & T2 & T3 & T4);
            pose proof (enabled_ready s0 n b Qe T1 T2) as RDY
        end;
      conj; intros; spec_hyps;
      try match goal with Hm : mp ?s0 = _, Qi : ip ?s0 = _ |- _ =>
            rewrite Hm in SA; cbn in SA; destruct (SA eq_refl) as [X|[_ []]]; congruence end;
      repeat match goal with |- context[match ?x with _ => _ end] => let E := fresh "E" in destruct x eqn:E; rewrite ?E in * end;
      cbn in *; spec_hyps; conj; intros;
      auto; try discriminate; try congruence; try (apply SO; congruence); try lia;
      try (eapply ready_mono; [eassumption | cbn; rewrite ?app_length; lia | cbn; lia]);
      try (rewrite T3; reflexivity);
      try (rewrite D7; cbn; congruence);
      try (erewrite pos0; [reflexivity | rewrite D7 in *; eassumption | eassumption]);
      try (exfalso; destruct (server_streaming sc) eqn:SS; [apply D10; reflexivity|];
           eapply unary_first_not_eof; [exact SS | exact T3 | rewrite T4; apply D7]).
    all: first [ match goal with Q : mp _ = ?m |- ?g => idtac "M" m "|-" g end
               | match goal with Q : ip _ = ?m |- ?g => idtac "I" m "|-" g end
               | match goal with Q : op _ = ?m |- ?g => idtac "O" m "|-" g end 
               | match goal with |- ?g => idtac "?" g end].
  Qed.

  Theorem finv_reach s : Reach sc s -> FInv sc tn thc tt s.
  Proof.
    intros R. pose proof R as R0. revert s R R0.
    assert (G : forall s, Reach sc s -> Reach sc s /\ FInv sc tn thc tt s).
    2:{ intros s R _. apply G, R. }
    apply reach_ind.
    - split; [constructor | apply finv_init].
    - intros s l s' _ [R I] Hs. split; [econstructor; eauto | eapply finv_step; eauto].
  Qed.

  (* a returned fault-free call reports the target's final status, has delivered every response message, and has
     satisfied whatever the target's final item was waiting for *)
  Theorem fault_free_complete s r : Reach sc s -> mp s = MRet r ->
    r = exp_res tt /\ sent_in s = out_msgs (out_recv sc) /\
    (tn <= length (sent_out s))%nat /\ (thc = true -> (0 < close_send s)%nat).
  Proof.
    intros R E. destruct (finv_reach s R) as (_ & _ & _ & _ & I5 & _). rewrite E in I5. cbn in I5.
    destruct (I5 eq_refl) as (_ & H1 & H2 & [H3 H4]). auto.
  Qed.

  (* ... in particular, when the target ends the call only after the whole request stream, the target has received
     exactly the client's messages *)
  Theorem fault_free_requests_complete s r : Reach sc s -> mp s = MRet r ->
    tn = length (in_msgs (in_recv sc)) -> sent_out s = in_msgs (in_recv sc).
  Proof.
    intros R E T. destruct (fault_free_complete s r R E) as (_ & _ & H & _).
    destruct (requests_prefix sc s R) as [k Hk]. rewrite Hk in *. rewrite firstn_length in H.
    apply firstn_all2. lia.
  Qed.
End FFree2.

(* the hypotheses are satisfiable and the conclusion is reached: a fault-free bidirectional call that returns *)
Definition sc_ff : script :=
  {| client_streaming := true; server_streaming := true; in_recv := [IMsg 1; IMsg 2; IEof]; in_send_fail := None;
     open_res := OpenOk; out_send_fail := None;
     out_recv := [(1%nat, false, OMsg 10); (2%nat, true, OMsg 11); (2%nat, true, OEof)];
     ctx_kind := CtxNone; in_aware := true; out_aware := true |}.
Example ff_example : FF sc_ff 2 true OEof.
Proof.
  constructor; cbn; try reflexivity; try discriminate.
  intros p e. destruct p as [|[|[|[|p]]]]; cbn; discriminate.
Qed.

Example ff_example_returns : exists s,
  run_sched sc_ff (repeat 0%nat 20) init = Some s /\ mp s = MRet RNil /\ sent_out s = [1; 2] /\ sent_in s = [10; 11] /\ close_send s = 1%nat.
Proof. eexists. split; [vm_compute; reflexivity|]. repeat split. Qed.
