(* C09 proofs: the field-level JSON codec model *)
From Coq Require Import Lia ZArith List Bool ZifyBool ZifyN ZifyNat.
From GB Require Import Model.MDFilter Model.Json Proofs.MDFilterProofs.
Import ListNotations.
Open Scope Z_scope.

(* ---------- digits ---------- *)
Definition all_digits (s : bytes) : Prop := Forall (fun c => is_digit c = true) s.

Lemma take_digits_all s : all_digits s -> take_digits s = (s, []).
Proof.
  induction s as [|c r IH]; intros H; [reflexivity|]. inversion H as [|? ? Hc Hr]; subst.
  cbn [take_digits]. rewrite Hc, (IH Hr). reflexivity.
Qed.

Lemma digits_Z_app a l c : digits_Z a (l ++ [c]) = digits_Z a l * 10 + (Z.of_N c - 48).
Proof. revert a; induction l as [|x l IH]; intros a; cbn [digits_Z app]; [reflexivity|apply IH]. Qed.

Lemma pos_digits_acc fuel : forall z acc, pos_digits fuel z acc = pos_digits fuel z [] ++ acc.
Proof.
  induction fuel as [|f IH]; intros z acc; cbn [pos_digits]; [reflexivity|].
  destruct (z <? 10); [reflexivity|]. rewrite (IH (z / 10) (_ :: acc)), (IH (z / 10) [_]). rewrite <- app_assoc. reflexivity.
Qed.

Lemma digit_char d : 0 <= d < 10 -> is_digit (Z.to_N (48 + d)) = true /\ Z.of_N (Z.to_N (48 + d)) - 48 = d.
Proof. intros H. unfold is_digit. split; lia. Qed.

Lemma pos_digits_spec fuel : forall z, 0 <= z < 10 ^ Z.of_nat fuel -> (0 < fuel)%nat ->
  all_digits (pos_digits fuel z []) /\ digits_Z 0 (pos_digits fuel z []) = z /\
  (exists c r, pos_digits fuel z [] = c :: r /\ (z > 0 -> c <> 48%N) /\ (z = 0 -> r = [])).
Proof.
  induction fuel as [|f IH]; intros z Hz Hf; [lia|].
  cbn [pos_digits]. destruct (Z.ltb_spec z 10) as [Hlt|Hge].
  - destruct (digit_char z ltac:(lia)) as [D1 D2]. repeat split.
    + constructor; [exact D1|constructor].
    + cbn [digits_Z]. lia.
    + eexists _, []. split; [reflexivity|]. split; [intros; lia|reflexivity].
  - assert (Hf' : (0 < f)%nat).
    { destruct f; [|lia]. cbn in Hz. lia. }
    assert (Hz' : 0 <= z / 10 < 10 ^ Z.of_nat f).
    { split; [apply Z.div_pos; lia|]. apply Z.div_lt_upper_bound; [lia|].
      replace (Z.of_nat (S f)) with (Z.of_nat f + 1) in Hz by lia. rewrite Z.pow_add_r in Hz by lia. lia. }
    destruct (IH (z / 10) Hz' Hf') as (A & B & c & r & E & Hc & _).
    rewrite pos_digits_acc. destruct (digit_char (z mod 10) ltac:(apply Z.mod_pos_bound; lia)) as [D1 D2].
    repeat split.
    + apply Forall_app. split; [exact A|]. constructor; [exact D1|constructor].
    + rewrite digits_Z_app, B, D2. pose proof (Z.div_mod z 10 ltac:(lia)). lia.
    + rewrite E. eexists c, _. split; [reflexivity|]. split; [|intros; lia].
      intros _. apply Hc. assert (1 <= z / 10) by (apply Z.div_le_lower_bound; lia). lia.
Qed.

Lemma all_digits_not_minus s c r : all_digits s -> s = c :: r -> (c =? 45)%N = false.
Proof. intros H E; subst. inversion H as [|? ? Hc _]; subst. unfold is_digit in Hc. lia. Qed.

(* a plain digit string (no leading zero unless it is "0") parses to its value *)
Lemma parse_plain ds : all_digits ds -> (exists c r, ds = c :: r /\ (c = 48%N -> r = [])) ->
  parse_number ds = Some {| nl_neg := false; nl_mant := digits_Z 0 ds; nl_exp := 0; nl_explen := 0 |}.
Proof.
  intros A (c & r & E & Hz). subst ds. unfold parse_number, split_minus. rewrite (all_digits_not_minus _ c r A eq_refl).
  rewrite (take_digits_all _ A).
  assert (I : int_part_ok (c :: r) = true).
  { unfold int_part_ok. destruct (N.eqb_spec c 48) as [e|ne]; [rewrite (Hz e); reflexivity|reflexivity]. }
  rewrite I. cbn [negb split_frac split_exp]. rewrite app_nil_r. reflexivity.
Qed.

Lemma parse_minus ds : all_digits ds -> (exists c r, ds = c :: r /\ (c = 48%N -> r = [])) ->
  parse_number (45%N :: ds) = Some {| nl_neg := true; nl_mant := digits_Z 0 ds; nl_exp := 0; nl_explen := 0 |}.
Proof.
  intros A (c & r & E & Hz). subst ds. unfold parse_number, split_minus. cbn [N.eqb Pos.eqb].
  rewrite (take_digits_all _ A).
  assert (I : int_part_ok (c :: r) = true).
  { unfold int_part_ok. destruct (N.eqb_spec c 48) as [e|ne]; [rewrite (Hz e); reflexivity|reflexivity]. }
  rewrite I. cbn [negb split_frac split_exp]. rewrite app_nil_r. reflexivity.
Qed.

Lemma json_integer_dec z : - 10 ^ 80 < z < 10 ^ 80 -> json_integer (dec_of_Z z) = Some z.
Proof.
  intros Hz. unfold json_integer, dec_of_Z. destruct (Z.ltb_spec z 0) as [Hneg|Hpos].
  - destruct (pos_digits_spec 80 (- z) ltac:(change (Z.of_nat 80) with 80; lia) ltac:(lia)) as (A & B & c & r & E & Hc & _).
    rewrite (parse_minus _ A). 2:{ exists c, r. split; [exact E|]. intros e. exfalso. apply Hc; [lia|exact e]. }
    cbn [nl_explen nl_exp nl_mant nl_neg Nat.ltb Nat.leb lit_integer Z.ltb Z.compare]. rewrite B. f_equal. lia.
  - destruct (pos_digits_spec 80 z ltac:(change (Z.of_nat 80) with 80; lia) ltac:(lia)) as (A & B & c & r & E & Hc & H0).
    rewrite (parse_plain _ A). 2:{ exists c, r. split; [exact E|]. intros e. destruct (Z.eq_dec z 0) as [z0|nz]; [apply H0; exact z0|]. exfalso. apply Hc; [lia|exact e]. }
    cbn [nl_explen nl_exp nl_mant nl_neg Nat.ltb Nat.leb lit_integer Z.ltb Z.compare]. rewrite B. f_equal. lia.
Qed.

(* ---------- what an accepted integer text denotes ---------- *)
Definition signed_mant (n : numlit) : Z := if nl_neg n then - nl_mant n else nl_mant n.
(* the rational mant * 10^exp equals the integer z *)
Definition denotes (n : numlit) (z : Z) : Prop :=
  signed_mant n * 10 ^ Z.max (nl_exp n) 0 = z * 10 ^ Z.max (- nl_exp n) 0.

Lemma lit_integer_denotes n z : lit_integer n = Some z -> denotes n z.
Proof.
  unfold lit_integer, denotes, signed_mant. destruct (Z.ltb_spec (nl_exp n) 0) as [Hn|Hp].
  - rewrite (Z.max_r _ 0) by lia. rewrite (Z.max_l (- nl_exp n) 0) by lia. rewrite Z.pow_0_r.
    set (d := 10 ^ (- nl_exp n)). assert (Hd : 0 < d) by (apply Z.pow_pos_nonneg; lia).
    destruct (Z.eqb_spec (nl_mant n mod d) 0) as [Hm|Hm]; [|discriminate].
    intros E. injection E as <-. pose proof (Z.div_mod (nl_mant n) d ltac:(lia)) as DM. rewrite Hm in DM.
    destruct (nl_neg n); nia.
  - rewrite (Z.max_l _ 0) by lia. rewrite (Z.max_r (- nl_exp n) 0) by lia. rewrite Z.pow_0_r.
    intros E. injection E as <-. destruct (nl_neg n); lia.
Qed.

(* and conversely: a literal whose value is an integer is accepted as that integer *)
Lemma denotes_lit_integer n z : 0 <= nl_mant n -> denotes n z -> lit_integer n = Some z.
Proof.
  unfold lit_integer, denotes, signed_mant. intros Hm. destruct (Z.ltb_spec (nl_exp n) 0) as [Hn|Hp].
  - rewrite (Z.max_r _ 0) by lia. rewrite (Z.max_l (- nl_exp n) 0) by lia. rewrite Z.pow_0_r.
    set (d := 10 ^ (- nl_exp n)). assert (Hd : 0 < d) by (apply Z.pow_pos_nonneg; lia). intros E.
    assert (M : nl_mant n = (if nl_neg n then - z else z) * d) by (destruct (nl_neg n); lia).
    rewrite M. rewrite Z.mod_mul by lia. cbn [Z.eqb]. rewrite Z.div_mul by lia. f_equal. destruct (nl_neg n); lia.
  - rewrite (Z.max_l _ 0) by lia. rewrite (Z.max_r (- nl_exp n) 0) by lia. rewrite Z.pow_0_r.
    intros E. f_equal. destruct (nl_neg n); lia.
Qed.

Definition is_int_kind (k : kind) : bool := match k with KInt32 | KInt64 | KUint32 | KUint64 => true | _ => false end.
Definition num_text (j : jv) : option bytes := match j with JNum s | JStr s => Some s | _ => None end.

(* no coercion, truncation or wrap-around: whatever an integer field accepts is null (the default) or a text that
   denotes EXACTLY the stored integer, which is in the field's range *)
Lemma int_accept_exact d k j v : is_int_kind k = true -> unmarshal_scalar d k j = Ok v ->
  (j = JNull /\ v = FInt 0) \/
  exists s n z, num_text j = Some s /\ parse_number s = Some n /\ denotes n z /\ in_range k z = true /\ v = FInt z.
Proof.
  intros K H.
  assert (G : forall s, match json_integer s with Some z => if in_range k z then Ok (FInt z) else Err | None => Err end = Ok v ->
              exists n z, parse_number s = Some n /\ denotes n z /\ in_range k z = true /\ v = FInt z).
  { intros s. unfold json_integer. destruct (parse_number s) as [n|]; [|discriminate].
    destruct (Nat.ltb 4 (nl_explen n)); [discriminate|]. destruct (lit_integer n) as [z|] eqn:L; [|discriminate].
    destruct (in_range k z) eqn:R; [|discriminate]. intros E. injection E as <-.
    exists n, z. repeat split; auto. apply lit_integer_denotes; exact L. }
  destruct k; try discriminate; destruct j; cbn [unmarshal_scalar] in H; try discriminate;
    try (left; split; [reflexivity|congruence]);
    right; destruct (G _ H) as (n & z & P); eexists _, n, z; (split; [reflexivity|exact P]).
Qed.

(* values of the wrong JSON type are rejected *)
Lemma accept_type_ok d k j v : unmarshal_scalar d k j = Ok v -> type_ok k j = true.
Proof. destruct k, j; cbn [unmarshal_scalar type_ok]; intros H; try discriminate; reflexivity. Qed.

(* out-of-range and fractional numbers are rejected *)
Lemma int_reject_out_of_range d k s n z : is_int_kind k = true -> parse_number s = Some n -> denotes n z -> in_range k z = false ->
  unmarshal_scalar d k (JNum s) = Err /\ unmarshal_scalar d k (JStr s) = Err.
Proof.
  intros K P D R.
  assert (G : match json_integer s with Some z => if in_range k z then Ok (FInt z) else Err | None => @Err fv end = Err).
  { unfold json_integer. rewrite P. destruct (Nat.ltb 4 (nl_explen n)); [reflexivity|].
    destruct (lit_integer n) as [z'|] eqn:L; [|reflexivity]. apply lit_integer_denotes in L.
    assert (z' = z).
    { unfold denotes in *. assert (0 < 10 ^ Z.max (- nl_exp n) 0) by (apply Z.pow_pos_nonneg; lia). nia. }
    subst z'. rewrite R. reflexivity. }
  destruct k; try discriminate; cbn [unmarshal_scalar]; split; exact G.
Qed.

Lemma int_reject_fractional d k s n : is_int_kind k = true -> parse_number s = Some n -> (forall z, ~ denotes n z) ->
  unmarshal_scalar d k (JNum s) = Err /\ unmarshal_scalar d k (JStr s) = Err.
Proof.
  intros K P D.
  assert (G : match json_integer s with Some z => if in_range k z then Ok (FInt z) else Err | None => @Err fv end = Err).
  { unfold json_integer. rewrite P. destruct (Nat.ltb 4 (nl_explen n)); [reflexivity|].
    destruct (lit_integer n) as [z'|] eqn:L; [|reflexivity]. apply lit_integer_denotes in L. destruct (D z' L). }
  destruct k; try discriminate; cbn [unmarshal_scalar]; split; exact G.
Qed.

(* ---------- integer round trips ---------- *)
Lemma in_range_small k z : is_int_kind k = true -> in_range k z = true -> - 10 ^ 80 < z < 10 ^ 80.
Proof.
  intros K R. assert (- 2 ^ 64 < z < 2 ^ 65).
  { destruct k; try discriminate; unfold in_range in R; lia. }
  assert (2 ^ 65 < 10 ^ 80) by (vm_compute; reflexivity). assert (2 ^ 64 < 10 ^ 80) by (vm_compute; reflexivity). lia.
Qed.

Lemma int_roundtrip d k z : is_int_kind k = true -> in_range k z = true ->
  unmarshal_scalar d k (JNum (dec_of_Z z)) = Ok (FInt z) /\ unmarshal_scalar d k (JStr (dec_of_Z z)) = Ok (FInt z).
Proof.
  intros K R. pose proof (json_integer_dec z (in_range_small k z K R)) as J.
  destruct k; try discriminate; cbn [unmarshal_scalar]; rewrite J, R; split; reflexivity.
Qed.

(* ---------- base64 ---------- *)
Open Scope N_scope.
Lemma lt64_sweep (P : N -> bool) : forallb P (map N.of_nat (seq 0 64)) = true -> forall n, n < 64 -> P n = true.
Proof.
  intros H n Hn. rewrite forallb_forall in H. apply H. rewrite <- (N2Nat.id n). apply in_map. apply in_seq. lia.
Qed.
Lemma b64_val_char n : n < 64 -> b64_val (b64_char n) = Some n.
Proof.
  intros H. pose proof (lt64_sweep (fun n => match b64_val (b64_char n) with Some m => m =? n | None => false end) ltac:(vm_compute; reflexivity) n H) as E.
  cbv beta in E. destruct (b64_val (b64_char n)); [|discriminate]. f_equal. lia.
Qed.
Lemma b64_char_not_crlf n : n < 64 -> is_crlf (b64_char n) = false.
Proof. intros H. apply Bool.negb_true_iff. exact (lt64_sweep (fun n => negb (is_crlf (b64_char n))) ltac:(vm_compute; reflexivity) n H). Qed.
Lemma b64_char_not_pad n : n < 64 -> (b64_char n =? 61) = false.
Proof. intros H. apply Bool.negb_true_iff. exact (lt64_sweep (fun n => negb (b64_char n =? 61)) ltac:(vm_compute; reflexivity) n H). Qed.

Definition all_bytes (s : bytes) : Prop := Forall (fun c => c < 256) s.

Lemma quantum3 a b c : a < 256 -> b < 256 -> c < 256 ->
  let v := a * 65536 + b * 256 + c in
  quantum (v / 262144) ((v / 4096) mod 64) ((v / 64) mod 64) (v mod 64) = [a; b; c].
Proof.
  intros Ha Hb Hc v. unfold quantum.
  assert (E : v / 262144 * 262144 + (v / 4096) mod 64 * 4096 + (v / 64) mod 64 * 64 + v mod 64 = v).
  { pose proof (N.div_mod v 64 ltac:(lia)). pose proof (N.div_mod (v / 64) 64 ltac:(lia)). pose proof (N.div_mod (v / 4096) 64 ltac:(lia)).
    replace (v / 4096) with (v / 64 / 64) in * by (rewrite N.div_div by lia; reflexivity).
    replace (v / 262144) with (v / 64 / 64 / 64) by (rewrite !N.div_div by lia; reflexivity). lia. }
  rewrite E. subst v.
  assert ((a * 65536 + b * 256 + c) / 65536 = a).
  { symmetry. apply (N.div_unique _ 65536 a (b * 256 + c)); lia. }
  assert ((a * 65536 + b * 256 + c) / 256 = a * 256 + b).
  { symmetry. apply (N.div_unique _ 256 (a * 256 + b) c); lia. }
  assert ((a * 65536 + b * 256 + c) mod 256 = c).
  { symmetry. apply (N.mod_unique _ 256 (a * 256 + b) c); lia. }
  assert ((a * 256 + b) mod 256 = b).
  { symmetry. apply (N.mod_unique _ 256 a b); lia. }
  congruence.
Qed.

Lemma sextet_bounds v : v < 16777216 -> v / 262144 < 64 /\ (v / 4096) mod 64 < 64 /\ (v / 64) mod 64 < 64 /\ v mod 64 < 64.
Proof.
  intros H. repeat split; try (apply N.mod_lt; lia). apply N.div_lt_upper_bound; lia.
Qed.

Lemma filter_all_id {A} (f : A -> bool) l : (forall x, In x l -> f x = true) -> filter f l = l.
Proof.
  induction l as [|x l IH]; intros H; [reflexivity|]. cbn [filter]. rewrite (H x (or_introl eq_refl)). f_equal. apply IH. intros y Hy. apply H. right; exact Hy.
Qed.

Lemma list_ind3 {A} (P : list A -> Prop) :
  P [] -> (forall a, P [a]) -> (forall a b, P [a; b]) -> (forall a b c r, P r -> P (a :: b :: c :: r)) -> forall l, P l.
Proof. intros H0 H1 H2 H3. fix IH 1. intros [|a [|b [|c r]]]; [exact H0|exact (H1 a)|exact (H2 a b)|exact (H3 a b c r (IH r))]. Qed.

Lemma strip_crlf_encode s : all_bytes s -> strip_crlf (b64_encode s) = b64_encode s.
Proof.
  intros H. unfold strip_crlf. apply filter_all_id. intros x Hx. apply Bool.negb_true_iff.
  revert H x Hx. induction s as [|a|a b|a b c r IH] using list_ind3; intros H x Hx.
  - destruct Hx.
  - inversion H as [|? ? Ha _]; subst. cbn [b64_encode In] in Hx.
    destruct (sextet_bounds (a * 65536) ltac:(lia)) as (B1 & B2 & _).
    destruct Hx as [<-|[<-|[<-|[<-|[]]]]]; try (apply b64_char_not_crlf; assumption); reflexivity.
  - inversion H as [|? ? Ha H2]; subst. inversion H2 as [|? ? Hb _]; subst. cbn [b64_encode In] in Hx.
    destruct (sextet_bounds (a * 65536 + b * 256) ltac:(lia)) as (B1 & B2 & B3 & _).
    destruct Hx as [<-|[<-|[<-|[<-|[]]]]]; try (apply b64_char_not_crlf; assumption); reflexivity.
  - inversion H as [|? ? Ha H2]; subst. inversion H2 as [|? ? Hb H3]; subst. inversion H3 as [|? ? Hc H4]; subst.
    cbn [b64_encode In] in Hx.
    destruct (sextet_bounds (a * 65536 + b * 256 + c) ltac:(lia)) as (B1 & B2 & B3 & B4).
    destruct Hx as [<-|[<-|[<-|[<-|Hx]]]]; try (apply b64_char_not_crlf; assumption).
    apply IH; [exact H4|exact Hx].
Qed.

Lemma b64_go_fuel p : forall f1 f2 s, (length s <= f1)%nat -> (length s <= f2)%nat -> b64_go p f1 s = b64_go p f2 s.
Proof.
  induction f1 as [|f1 IH]; intros f2 s H1 H2.
  - destruct s; [|cbn in H1; lia]. destruct f2; reflexivity.
  - destruct f2 as [|f2]; [destruct s; [reflexivity|cbn in H2; lia]|].
    destruct s as [|a [|b [|c [|d r]]]]; try reflexivity.
    cbn [b64_go]. cbn [length] in H1, H2. rewrite (IH f2 r) by lia. reflexivity.
Qed.

Lemma b64_go_quad p f a b c d r x y z w : b64_val a = Some x -> b64_val b = Some y -> b64_val c = Some z -> b64_val d = Some w ->
  b64_go p (S f) (a :: b :: c :: d :: r) = match b64_go p f r with Some t => Some (quantum x y z w ++ t) | None => None end.
Proof. intros Ea Eb Ec Ed. cbn [b64_go]. rewrite Ea, Eb, Ec, Ed. reflexivity. Qed.

Lemma b64_val_pad : b64_val 61 = None. Proof. reflexivity. Qed.

Lemma b64_roundtrip s : all_bytes s -> b64_std (b64_encode s) = Some s.
Proof.
  intros H. unfold b64_std. rewrite (strip_crlf_encode s H).
  revert H. induction s as [|a|a b|a b c r IH] using list_ind3; intros H.
  - reflexivity.
  - inversion H as [|? ? Ha _]; subst. cbn [b64_encode length b64_go].
    destruct (sextet_bounds (a * 65536) ltac:(lia)) as (B1 & B2 & _).
    rewrite (b64_val_char _ B1), (b64_val_char _ B2), b64_val_pad. cbn [N.eqb Pos.eqb andb].
    pose proof (quantum3 a 0 0 Ha ltac:(lia) ltac:(lia)) as Q. cbv zeta in Q. rewrite !N.mul_0_l, !N.add_0_r in Q.
    assert (E1 : ((a * 65536) / 64) mod 64 = 0).
    { replace (a * 65536) with (a * 1024 * 64) by lia. rewrite N.div_mul by lia. replace (a * 1024) with (a * 16 * 64) by lia. apply N.mod_mul; lia. }
    assert (E2 : (a * 65536) mod 64 = 0).
    { replace (a * 65536) with (a * 1024 * 64) by lia. apply N.mod_mul; lia. }
    rewrite E1, E2 in Q. rewrite Q. reflexivity.
  - inversion H as [|? ? Ha H2]; subst. inversion H2 as [|? ? Hb _]; subst. cbn [b64_encode length b64_go].
    destruct (sextet_bounds (a * 65536 + b * 256) ltac:(lia)) as (B1 & B2 & B3 & _).
    rewrite (b64_val_char _ B1), (b64_val_char _ B2), (b64_val_char _ B3), b64_val_pad. cbn [N.eqb Pos.eqb andb].
    pose proof (quantum3 a b 0 Ha Hb ltac:(lia)) as Q. cbv zeta in Q. rewrite !N.add_0_r in Q.
    assert (E2 : (a * 65536 + b * 256) mod 64 = 0).
    { replace (a * 65536 + b * 256) with ((a * 1024 + b * 4) * 64) by lia. apply N.mod_mul; lia. }
    rewrite E2 in Q. rewrite Q. reflexivity.
  - inversion H as [|? ? Ha H2]; subst. inversion H2 as [|? ? Hb H3]; subst. inversion H3 as [|? ? Hc H4]; subst.
    cbn [b64_encode length].
    destruct (sextet_bounds (a * 65536 + b * 256 + c) ltac:(lia)) as (B1 & B2 & B3 & B4).
    rewrite (b64_go_quad _ _ _ _ _ _ _ _ _ _ _ (b64_val_char _ B1) (b64_val_char _ B2) (b64_val_char _ B3) (b64_val_char _ B4)).
    rewrite (b64_go_fuel true _ (length (b64_encode r)) (b64_encode r)) by lia.
    rewrite (IH H4). pose proof (quantum3 a b c Ha Hb Hc) as Q. cbv zeta in Q. rewrite Q. reflexivity.
Qed.
Close Scope N_scope.

(* ---------- enums ---------- *)
Lemma lookup_num_name z names n : NoDup (map fst names) -> lookup_num z names = Some n -> lookup_name n names = Some z.
Proof.
  induction names as [|[k v] r IH]; intros ND H; [discriminate|]. cbn [lookup_num lookup_name] in *.
  inversion ND as [|? ? Nin ND']; subst.
  destruct (Z.eqb_spec z v) as [->|ne].
  - injection H as <-. rewrite bytes_eqb_refl. reflexivity.
  - destruct (bytes_eqb n k) eqn:E.
    + exfalso. apply bytes_eqb_eq in E. subst k. apply Nin.
      clear - H. induction r as [|[k' v'] r IH]; [discriminate|]. cbn [lookup_num] in H. destruct (Z.eqb z v').
      * injection H as <-. left; reflexivity.
      * right. apply IH; exact H.
    + apply IH; assumption.
Qed.

Lemma enum_number_roundtrip d names z : -2147483648 <= z <= 2147483647 ->
  unmarshal_scalar d (KEnum names) (JNum (dec_of_Z z)) = Ok (FEnum z).
Proof.
  intros R. cbn [unmarshal_scalar].
  assert (J : json_integer (dec_of_Z z) = Some z).
  { apply json_integer_dec. assert (2 ^ 32 < 10 ^ 80) by (vm_compute; reflexivity). lia. }
  unfold json_integer in J. destruct (parse_number (dec_of_Z z)) as [n|]; [|discriminate].
  destruct (Nat.ltb 4 (nl_explen n)); [discriminate|]. rewrite J.
  replace ((-2147483648 <=? z) && (z <=? 2147483647)) with true by lia. reflexivity.
Qed.

(* ---------- every value survives encode -> decode, with the code's encoder and with the canonical one ---------- *)
Definition wf_value (k : kind) (v : fv) : Prop :=
  match k, v with
  | KBool, FBool _ => True
  | (KInt32 | KInt64 | KUint32 | KUint64), FInt z => in_range k z = true
  | (KFloat | KDouble), FSpecial s => 0 <= s <= 2          (* NaN, +Infinity, -Infinity; finite floats: strconv, see DESIGN *)
  | KString, FStr _ => True
  | KBytes, FBytes s => all_bytes s
  | KEnum names, FEnum z => NoDup (map fst names) /\ -2147483648 <= z <= 2147483647
  | _, _ => False
  end.

Lemma scalar_roundtrip d k v : wf_value k v ->
  (exists j, marshal_scalar k v = Some j /\ unmarshal_scalar d k j = Ok v) /\
  (exists j, pj_encode k v = Some j /\ unmarshal_scalar d k j = Ok v).
Proof.
  intros W.
  assert (INT : forall z, is_int_kind k = true -> in_range k z = true ->
            unmarshal_scalar d k (JNum (dec_of_Z z)) = Ok (FInt z) /\ unmarshal_scalar d k (JStr (dec_of_Z z)) = Ok (FInt z))
    by (intros; apply int_roundtrip; assumption).
  destruct k, v; cbn [wf_value] in W; try contradiction.
  - split; eexists; (split; [reflexivity|reflexivity]).
  - destruct (INT z eq_refl W). split; eexists; (split; [reflexivity|eassumption]).
  - destruct (INT z eq_refl W). split; eexists; (split; [reflexivity|eassumption]).
  - destruct (INT z eq_refl W). split; eexists; (split; [reflexivity|eassumption]).
  - destruct (INT z eq_refl W). split; eexists; (split; [reflexivity|eassumption]).
  - assert (k = 0 \/ k = 1 \/ k = 2) as [-> | [-> | ->]] by lia; split; eexists; (split; [reflexivity|vm_compute; reflexivity]).
  - assert (k = 0 \/ k = 1 \/ k = 2) as [-> | [-> | ->]] by lia; split; eexists; (split; [reflexivity|vm_compute; reflexivity]).
  - split; eexists; (split; [reflexivity|reflexivity]).
  - split; eexists; (split; [reflexivity|cbn [unmarshal_scalar]; rewrite (b64_roundtrip _ W); reflexivity]).
  - destruct W as [ND R]. unfold pj_encode. cbn [marshal_scalar].
    destruct (lookup_num n names) as [nm|] eqn:L.
    + split; eexists; (split; [reflexivity|cbn [unmarshal_scalar]; rewrite (lookup_num_name _ _ _ ND L); reflexivity]).
    + split; eexists; (split; [reflexivity|apply enum_number_roundtrip; exact R]).
Qed.

(* ---------- lists and maps ---------- *)
Lemma wf_not_skip k v : wf_value k v -> not_skip v = true.
Proof. destruct k, v; cbn; try contradiction; reflexivity. Qed.

Lemma list_roundtrip d k l : Forall (wf_value k) l ->
  exists j, marshal_list k l = Some j /\ unmarshal_list d k j = Ok l.
Proof.
  intros W. unfold marshal_list.
  assert (G : exists js, collect_opt (map (marshal_scalar k) l) = Some js /\ collect (map (unmarshal_scalar d k) js) = Ok l).
  { induction W as [|v l Wv Wl IH]; [exists []; split; reflexivity|].
    destruct IH as (js & E1 & E2). destruct (proj1 (scalar_roundtrip d k v Wv)) as (j & M & U).
    exists (j :: js). cbn [map collect_opt collect]. rewrite M, E1, U, E2. split; reflexivity. }
  destruct G as (js & E1 & E2). rewrite E1. eexists. split; [reflexivity|]. cbn [unmarshal_list]. rewrite E2. f_equal.
  apply filter_all_id. intros x Hx. rewrite Forall_forall in W. apply (wf_not_skip k). apply W. exact Hx.
Qed.

Definition wf_key (kk : kind) (v : fv) : Prop :=
  match kk, v with
  | KBool, FBool _ => True
  | (KInt32 | KInt64 | KUint32 | KUint64), FInt z => in_range kk z = true
  | KString, FStr _ => True
  | _, _ => False
  end.

Lemma key_roundtrip kk v : wf_key kk v -> exists t, key_text kk v = Some t /\ unmarshal_key kk t = Ok v.
Proof.
  destruct kk, v; cbn [wf_key]; try contradiction; intros W.
  - destruct b; eexists; (split; [reflexivity|vm_compute; reflexivity]).
  - eexists; split; [reflexivity|]. exact (proj2 (int_roundtrip false KInt32 z eq_refl W)).
  - eexists; split; [reflexivity|]. exact (proj2 (int_roundtrip false KInt64 z eq_refl W)).
  - eexists; split; [reflexivity|]. exact (proj2 (int_roundtrip false KUint32 z eq_refl W)).
  - eexists; split; [reflexivity|]. exact (proj2 (int_roundtrip false KUint64 z eq_refl W)).
  - eexists; split; reflexivity.
Qed.

Lemma map_roundtrip d kk vk l : Forall (fun e => wf_key kk (fst e) /\ wf_value vk (snd e)) l ->
  exists j, marshal_map kk vk l = Some j /\ unmarshal_map d kk vk j = Ok l.
Proof.
  intros W. unfold marshal_map.
  set (enc := fun e : fv * fv => match key_text kk (fst e), marshal_scalar vk (snd e) with Some a, Some b => Some (a, b) | _, _ => None end).
  set (dec := fun e : bytes * jv => match unmarshal_key kk (fst e), unmarshal_scalar d vk (snd e) with Ok a, Ok b => Ok (a, b) | _, _ => Err end).
  assert (G : exists es, collect_opt (map enc l) = Some es /\ collect (map dec es) = Ok l).
  { induction W as [|[kv v] l [Wk Wv] Wl IH]; [exists []; split; reflexivity|].
    destruct IH as (es & E1 & E2). destruct (proj1 (scalar_roundtrip d vk v Wv)) as (j & M & U).
    destruct (key_roundtrip kk kv Wk) as (t & KT & KU).
    exists ((t, j) :: es). cbn [map collect_opt collect]. unfold enc at 1, dec at 1. cbn [fst snd]. rewrite KT, M, E1, KU, U, E2. split; reflexivity. }
  destruct G as (es & E1 & E2). rewrite E1. eexists. split; [reflexivity|]. cbn [unmarshal_map]. fold dec. rewrite E2. f_equal.
  apply filter_all_id. intros x Hx. rewrite Forall_forall in W. apply (wf_not_skip vk). apply (W x Hx).
Qed.

(* ---------- unknown enum names: rejected, or skipped when unknowns are discarded ---------- *)
Lemma unknown_enum_name names s : lookup_name s names = None ->
  unmarshal_scalar false (KEnum names) (JStr s) = Err /\ unmarshal_scalar true (KEnum names) (JStr s) = Ok FSkip.
Proof. intros H. cbn [unmarshal_scalar]. rewrite H. split; reflexivity. Qed.

Lemma skip_only_unknown_enum d k j : unmarshal_scalar d k j = Ok FSkip ->
  d = true /\ exists names s, k = KEnum names /\ j = JStr s /\ lookup_name s names = None.
Proof.
  destruct k, j; cbn [unmarshal_scalar]; unfold float_of_lit; intros H; try discriminate;
    repeat (match type of H with context [match ?x with _ => _ end] => destruct x eqn:? end; try discriminate).
  split; [reflexivity|]. eexists _, _. repeat split; eassumption.
Qed.

Lemma list_never_stores_skip d k j l : unmarshal_list d k j = Ok l -> ~ In FSkip l.
Proof.
  destruct j; cbn [unmarshal_list]; intros H; try discriminate.
  - injection H as <-. intros [].
  - destruct (collect _) as [x|]; [|discriminate]. injection H as <-. intros I. apply filter_In in I. destruct I as [_ I]. discriminate.
Qed.

(* ---------- floats: a finite text never becomes an infinity, the special values only come from their names ---------- *)
Lemma float_number_finite d k s v : (k = KFloat \/ k = KDouble) -> unmarshal_scalar d k (JNum s) = Ok v ->
  v = FFinite /\ exists n, parse_number s = Some n /\ mag_ge n (float_bound k) = false.
Proof.
  intros [->| ->]; cbn [unmarshal_scalar]; destruct (parse_number s) as [n|]; try discriminate; unfold float_of_lit;
    destruct (mag_ge n _) eqn:M; try discriminate; intros E; injection E as <-; (split; [reflexivity|exists n; split; [reflexivity|exact M]]).
Qed.

(* ---------- the code before the repairs ---------- *)
Definition b (l : list Z) : bytes := map Z.to_N l.
Lemma old_int_refuted :
  unmarshal_int_old KInt32 (b [49;46;53]) = 0 /\                                   (* 1.5 -> 0 *)
  unmarshal_int_old KInt32 (b [49;101;51]) = 0 /\                                  (* 1e3 -> 0 *)
  unmarshal_int_old KInt32 (b [49;48;57;57;53;49;49;54;50;55;55;55;54]) = 0 /\     (* 2^40 -> 0 *)
  unmarshal_int_old KUint32 (b [45;49]) = 4294967295 /\                            (* -1 -> 2^32-1 *)
  unmarshal_int_old KInt32 (b [50;49;52;55;52;56;51;54;52;56]) = -2147483648.      (* 2^31 -> -2^31 *)
Proof. vm_compute. repeat split; reflexivity. Qed.

(* ---------- agreement with any sound parser, and completeness on integer-valued texts ---------- *)
Lemma denotes_unique n z1 z2 : denotes n z1 -> denotes n z2 -> z1 = z2.
Proof. unfold denotes. intros A B. assert (0 < 10 ^ Z.max (- nl_exp n) 0) by (apply Z.pow_pos_nonneg; lia). nia. Qed.

Lemma digits_Z_nonneg ds : forall a, 0 <= a -> all_digits ds -> 0 <= digits_Z a ds.
Proof.
  induction ds as [|c r IH]; intros a Ha A; cbn [digits_Z]; [exact Ha|]. inversion A as [|? ? Hc Hr]; subst.
  apply IH; [|exact Hr]. unfold is_digit in Hc. lia.
Qed.
Lemma take_digits_digits s : all_digits (fst (take_digits s)).
Proof.
  induction s as [|c r IH]; cbn [take_digits]; [constructor|]. destruct (is_digit c) eqn:D; [|constructor].
  destruct (take_digits r) as [dd rest]. cbn [fst] in *. constructor; assumption.
Qed.
Lemma parse_number_mant_nonneg s n : parse_number s = Some n -> 0 <= nl_mant n.
Proof.
  unfold parse_number. destruct (split_minus s) as [neg s1]. pose proof (take_digits_digits s1) as D1.
  destruct (take_digits s1) as [ip s2]. destruct (negb (int_part_ok ip)); [discriminate|].
  assert (D2 : all_digits (fst (fst (split_frac s2)))).
  { unfold split_frac. destruct s2 as [|c r]; [constructor|]. destruct (c =? 46)%N; [|constructor].
    pose proof (take_digits_digits r) as D. destruct (take_digits r) as [f r']. exact D. }
  destruct (split_frac s2) as [[fp s3] fok]. destruct (negb fok); [discriminate|]. destruct (split_exp s3) as [[e elen]|]; [|discriminate].
  intros E. injection E as <-. cbn [nl_mant]. apply digits_Z_nonneg; [lia|]. apply Forall_app. split; assumption.
Qed.

(* exponent forms that denote integers are accepted too (1e3, 2.5e+2, 1.0), as the proto3 JSON mapping requires *)
Lemma int_accept_complete d k s n z : is_int_kind k = true -> parse_number s = Some n -> (nl_explen n <= 4)%nat ->
  denotes n z -> in_range k z = true ->
  unmarshal_scalar d k (JNum s) = Ok (FInt z) /\ unmarshal_scalar d k (JStr s) = Ok (FInt z).
Proof.
  intros K P L D R.
  assert (J : json_integer s = Some z).
  { unfold json_integer. rewrite P. replace (Nat.ltb 4 (nl_explen n)) with false by (symmetry; apply Nat.ltb_ge; exact L).
    apply denotes_lit_integer; [apply (parse_number_mant_nonneg s); exact P|exact D]. }
  destruct k; try discriminate; cbn [unmarshal_scalar]; rewrite J, R; split; reflexivity.
Qed.

(* non-vacuity: concrete texts *)
Example ex_exponent_int : unmarshal_scalar false KInt32 (JNum (b [50;46;53;101;43;50])) = Ok (FInt 250).   (* 2.5e+2 *)
Proof. vm_compute. reflexivity. Qed.
Example ex_fraction_rejected : unmarshal_scalar false KInt32 (JNum (b [49;46;53])) = Err.                  (* 1.5 *)
Proof. vm_compute. reflexivity. Qed.
Example ex_out_of_range : unmarshal_scalar false KUint32 (JNum (b [45;49])) = Err.                          (* -1 *)
Proof. vm_compute. reflexivity. Qed.
Example ex_u64_max : unmarshal_scalar false KUint64 (JStr (dec_of_Z 18446744073709551615)) = Ok (FInt 18446744073709551615).
Proof. vm_compute. reflexivity. Qed.
