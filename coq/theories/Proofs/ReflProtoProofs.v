From GB Require Import Model.ReflProto.
From Coq Require Import Lia.
Open Scope Z_scope.

Lemma beq_true a b : bytes_eqb a b = true -> a = b.
Proof.
  unfold bytes_eqb. revert b. induction a as [|x a IH]; destruct b as [|y b]; cbn [list_eqb]; intros H; try discriminate; [reflexivity|].
  apply andb_prop in H as [H1 H2]. apply N.eqb_eq in H1. f_equal; auto.
Qed.
Lemma beq_refl a : bytes_eqb a a = true.
Proof. unfold bytes_eqb. induction a; cbn [list_eqb]; [reflexivity|]. rewrite N.eqb_refl. exact IHa. Qed.
Lemma mem_b_In x l : mem_b x l = true <-> In x l.
Proof.
  unfold mem_b. rewrite existsb_exists. split.
  - intros (y & I & E). apply beq_true in E. subst. exact I.
  - intros I. exists x. split; [exact I | apply beq_refl].
Qed.
Lemma mem_b_false x l : mem_b x l = false <-> ~ In x l.
Proof. rewrite <- mem_b_In. destruct (mem_b x l); split; intros H; try congruence; try (intros X; congruence); exfalso; apply H; reflexivity. Qed.

(* ---- de-duplication: every name once, first occurrences kept, nothing invented ---- *)
Lemma dedupe_names_spec : forall l seen,
  NoDup (fnames (dedupe seen l)) /\ (forall f, In f (dedupe seen l) -> In f l /\ ~ In (rf_name f) seen) /\
  (forall f, In f l -> ~ In (rf_name f) seen -> In (rf_name f) (fnames (dedupe seen l))).
Proof.
  induction l as [|f l IH]; intros seen; simpl.
  - split; [constructor|]. split; intros; contradiction.
  - destruct (mem_b (rf_name f) seen) eqn:M.
    + destruct (IH seen) as (A & B & C). split; [exact A|]. split.
      * intros g I. destruct (B g I). auto.
      * intros g [->|I] N; [apply mem_b_In in M; contradiction | auto].
    + destruct (IH (rf_name f :: seen)) as (A & B & C). apply mem_b_false in M. split; [|split].
      * simpl. constructor; [|exact A]. intros I. apply in_map_iff in I as (g & E & I). destruct (B g I) as [_ N]. apply N. left. congruence.
      * intros g [<-|I]; [auto|]. destruct (B g I) as [I1 N]. split; [auto|]. intros X. apply N. right; exact X.
      * intros g [->|I] N; [left; reflexivity|].
        destruct (bytes_eqb (rf_name g) (rf_name f)) eqn:E.
        -- apply beq_true in E. left. congruence.
        -- right. apply C; [exact I|]. intros [X|X]; [rewrite X, beq_refl in E; discriminate | contradiction].
Qed.

Theorem dedupe_nodup l : NoDup (fnames (dedupe [] l)).
Proof. apply dedupe_names_spec. Qed.

Theorem dedupe_keeps_names l f : In f l -> In (rf_name f) (fnames (dedupe [] l)).
Proof. intros I. apply (proj2 (proj2 (dedupe_names_spec l []))); auto. Qed.

Theorem dedupe_sub l f : In f (dedupe [] l) -> In f l.
Proof. intros I. apply (proj1 (proj2 (dedupe_names_spec l []))) in I. tauto. Qed.

(* F5: the code before the repair kept duplicates, which protodesc.NewFiles rejects *)
Theorem dedupe_old_refuted : exists l, ~ NoDup (fnames (dedupe_old l)).
Proof.
  exists [{| rf_name := [97%N]; rf_deps := []; rf_svcs := [] |}; {| rf_name := [97%N]; rf_deps := []; rf_svcs := [] |}].
  intros H. inversion H as [|? ? N _]; subst. apply N. left; reflexivity.
Qed.

(* ---- dependency search: for EVERY server, a returned set is closed under dependencies and has every name once ---- *)
Definition closed_except (set : list rfile) (missing : list bytes) : Prop :=
  forall f d, In f set -> In d (rf_deps f) -> In d (fnames set) \/ In d missing.

Lemma dedup_names_In x l : In x (dedup_names l) <-> In x l.
Proof.
  induction l as [|y l IH]; simpl; [tauto|].
  destruct (mem_b y l) eqn:M.
  - rewrite IH. split; [auto|]. intros [->|I]; [apply mem_b_In; exact M | exact I].
  - simpl. rewrite IH. tauto.
Qed.

Lemma deps_missing_In fs present d : In d (deps_missing fs present) <-> (exists f, In f fs /\ In d (rf_deps f)) /\ ~ In d present.
Proof.
  unfold deps_missing. rewrite dedup_names_In, filter_In, in_flat_map, negb_true_iff, mem_b_false. tauto.
Qed.

Lemma nodup_app_local {A} (a b : list A) : NoDup a -> NoDup b -> (forall x, In x a -> In x b -> False) -> NoDup (a ++ b).
Proof.
  induction a as [|x a IH]; intros Na Nb D; simpl; [exact Nb|]. inversion Na; subst. constructor.
  - rewrite in_app_iff. intros [I|I]; [contradiction | eapply D; [left; reflexivity | exact I]].
  - apply IH; auto. intros y I1 I2. eapply D; [right; exact I1 | exact I2].
Qed.

Section Srv.
  Variable ans_file : list bytes -> bytes -> option (list rfile).

  Lemma bfs_sound : forall fuel sent set missing res,
    NoDup (fnames set) -> closed_except set missing ->
    bfs ans_file fuel sent set missing = Some res ->
    NoDup (fnames res) /\ closed_except res [] /\ (forall f, In f set -> In f res).
  Proof.
    induction fuel as [|fuel IH]; intros sent set missing res ND CE H.
    - destruct missing; [|discriminate]. injection H as <-. auto.
    - destruct missing as [|m0 ms] eqn:EM; [injection H as <-; auto|]. rewrite <- EM in *.
      cbn [bfs] in H. rewrite EM in H. rewrite <- EM in H.
      destruct (batch ans_file sent missing) as [[raw sent']|]; [|discriminate].
      set (resp := dedupe [] raw) in *.
      set (fresh := filter (fun x => negb (mem_b (rf_name x) (fnames set))) resp) in *.
      destruct (filter (fun m => negb (mem_b m (fnames resp))) missing) as [|s0 st] eqn:ST; [|discriminate].
      assert (Got : forall m, In m missing -> In m (fnames resp)).
      { intros m I. destruct (mem_b m (fnames resp)) eqn:M; [apply mem_b_In; exact M|].
        assert (J : In m (filter (fun m => negb (mem_b m (fnames resp))) missing)) by (apply filter_In; split; [exact I | rewrite M; reflexivity]).
        rewrite ST in J. destruct J. }
      assert (NDr : NoDup (fnames resp)) by apply dedupe_nodup.
      assert (Names : forall x, In x (fnames (set ++ fresh)) <-> In x (fnames set) \/ In x (fnames resp)).
      { intros x. unfold fnames. rewrite map_app, in_app_iff. split.
        - intros [I|I]; [auto|]. right. apply in_map_iff in I as (g & E & I). apply filter_In in I as [I _]. apply in_map_iff. eauto.
        - intros [I|I]; [auto|]. destruct (mem_b x (map rf_name set)) eqn:M; [left; apply mem_b_In; exact M|].
          right. apply in_map_iff in I as (g & E & I). apply in_map_iff. exists g. split; [exact E|]. apply filter_In. split; [exact I|].
          unfold fnames. rewrite E, M. reflexivity. }
      apply IH in H.
      + destruct H as (A & B & C). split; [exact A|]. split; [exact B|]. intros f I. apply C. apply in_or_app; auto.
      + (* NoDup of set ++ fresh *)
        unfold fnames. rewrite map_app. apply nodup_app_local.
        * exact ND.
        * unfold fresh. clear - NDr. induction resp as [|g r IHr]; simpl; [constructor|]. simpl in NDr. inversion NDr; subst.
          destruct (negb (mem_b (rf_name g) (fnames set))); simpl; [|auto]. constructor; [|auto].
          intros I. apply in_map_iff in I as (h & E & I). apply filter_In in I as [I _]. apply H1. rewrite <- E. apply in_map; exact I.
        * intros x I1 I2. apply in_map_iff in I2 as (g & E & I2). apply filter_In in I2 as [_ I2].
          apply negb_true_iff, mem_b_false in I2. apply I2. rewrite E. exact I1.
      + (* closedness *)
        intros f d I Id. apply in_app_or in I as [I|I].
        * destruct (CE f d I Id) as [J|J]; [left; apply Names; auto | left; apply Names; right; apply Got; exact J].
        * apply filter_In in I as [I _].
          destruct (mem_b d (fnames set ++ fnames resp)) eqn:M.
          -- apply mem_b_In in M. left. apply Names. apply in_app_or in M. exact M.
          -- right. apply deps_missing_In. split; [eauto|]. apply mem_b_false. exact M.
  Qed.
End Srv.

(* the whole collection phase, for every server: what comes back has every file name once and is closed under dependencies -
   exactly the precondition of protodesc.NewFiles as modelled by [registry_ok] *)
Theorem collect_sound ans_sym ans_file limit names res :
  collect ans_sym ans_file limit names = Some res ->
  NoDup (fnames res) /\ (forall f d, In f res -> In d (rf_deps f) -> In d (fnames res)).
Proof.
  unfold collect. destruct (batch ans_sym [] names) as [[raw sent]|]; [|discriminate].
  intros H. apply bfs_sound in H.
  - destruct H as (A & B & _). split; [exact A|]. intros f d I Id. destruct (B f d I Id) as [X|[]]. exact X.
  - apply dedupe_nodup.
  - intros f d I Id. destruct (mem_b d (fnames (dedupe [] raw))) eqn:M; [left; apply mem_b_In; exact M|].
    right. apply deps_missing_In. split; [eauto | apply mem_b_false; exact M].
Qed.

(* ---- service names: exactly the valid, first-occurrence, non-administrative listed ones ---- *)
Lemma filter_names_spec ignore : forall l seen n,
  In n (filter_names ignore seen l) <->
  In n l /\ valid_name n = true /\ ~ In n seen /\ existsb (fun p => prefix_b p n) ignore = false.
Proof.
  induction l as [|x l IH]; intros seen n; simpl; [tauto|].
  destruct (valid_name x) eqn:V; simpl.
  - destruct (mem_b x seen) eqn:M.
    + rewrite IH. apply mem_b_In in M. split; [intros (A & B & C & D); auto|].
      intros ([->|A] & B & C & D); [contradiction | auto].
    + apply mem_b_false in M. destruct (existsb (fun p => prefix_b p x) ignore) eqn:P.
      * rewrite IH. split.
        -- intros (A & B & C & D). repeat split; auto. intros X. apply C. right; exact X.
        -- intros ([->|A] & B & C & D); [congruence|]. repeat split; auto. intros [X|X]; [subst; congruence | contradiction].
      * simpl. rewrite IH. split.
        -- intros [->|(A & B & C & D)]; [repeat split; auto|]. repeat split; auto. intros X. apply C. right; exact X.
        -- intros ([->|A] & B & C & D); [left; reflexivity|].
           destruct (bytes_eqb x n) eqn:E; [left; apply beq_true; exact E|].
           right. repeat split; auto. intros [X|X]; [rewrite X, beq_refl in E; discriminate | contradiction].
  - rewrite IH. split; [intros (A & B & C & D); auto|]. intros ([->|A] & B & C & D); [congruence | auto].
Qed.

Theorem services_exact ignore listed n :
  In n (filter_names ignore [] listed) <->
  In n listed /\ valid_name n = true /\ existsb (fun p => prefix_b p n) ignore = false.
Proof. rewrite filter_names_spec. tauto. Qed.

Lemma filter_names_nodup ignore : forall l seen, NoDup (filter_names ignore seen l).
Proof.
  induction l as [|x l IH]; intros seen; simpl; [constructor|].
  destruct (valid_name x); simpl; [|apply IH].
  destruct (mem_b x seen); [apply IH|].
  destruct (existsb (fun p => prefix_b p x) ignore); [apply IH|].
  constructor; [|apply IH]. rewrite filter_names_spec. intros (_ & _ & C & _). apply C. left; reflexivity.
Qed.

(* bindings: the five standard kinds become the upper-case HTTP method, custom kinds are kept verbatim *)
Theorem http_methods_exact :
  map http_method_of std_kinds = [[71;69;84]; [80;85;84]; [80;79;83;84]; [68;69;76;69;84;69]; [80;65;84;67;72]]%N.
Proof. reflexivity. Qed.
