(* C20, the converse direction: everything the routing parser accepts IS a string of the template language, and the
   structure it returns is the structure that string was derived from.  The language is given as a derivation relation
   on strings (Rseg / Rsegs / Rtemplate) that mentions neither tokens nor the parser. *)
From Coq Require Import Lia NArith List Bool.
From GB Require Import Model.Template Proofs.MDFilterProofs Proofs.TemplateParseProofs.
Import ListNotations.
Open Scope N_scope.

(* ---------- the language ---------- *)
(* Segment  = "*" | "**" | LITERAL | "{" FieldPath [ "=" Segments ] "}" ;  "{path}" is short for "{path=*}" *)
Fixpoint Rseg (s : seg) (txt : bytes) {struct s} : Prop :=
  match s with
  | SWild => txt = [c_star]
  | SDeep => txt = s_deep
  | SLit l => txt = l /\ l <> [] /\ is_literal l = true
  | SVar path segs =>
      path <> [] /\ forallb is_ident path = true /\
      ((segs = [SWild] /\ txt = c_lbrace :: join_with c_dot path ++ [c_rbrace]) \/
       exists txts,
         (fix Rl (l : list seg) (ts : list bytes) {struct l} : Prop :=
            match l, ts with
            | [], [] => True
            | x :: l', t :: ts' => Rseg x t /\ Rl l' ts'
            | _, _ => False
            end) segs txts /\ txts <> [] /\
         txt = c_lbrace :: join_with c_dot path ++ c_eq :: join_with c_slash txts ++ [c_rbrace])
  end.
Fixpoint Rsegs (l : list seg) (ts : list bytes) {struct l} : Prop :=
  match l, ts with
  | [], [] => True
  | x :: l', t :: ts' => Rseg x t /\ Rsegs l' ts'
  | _, _ => False
  end.

Lemma Rseg_var path segs txt : Rseg (SVar path segs) txt <->
  path <> [] /\ forallb is_ident path = true /\
  ((segs = [SWild] /\ txt = c_lbrace :: join_with c_dot path ++ [c_rbrace]) \/
   exists txts, Rsegs segs txts /\ txts <> [] /\
                txt = c_lbrace :: join_with c_dot path ++ c_eq :: join_with c_slash txts ++ [c_rbrace]).
Proof. split; intros H; exact H. Qed.

(* Template = "/" Segments [ ":" LITERAL ] ; "/" alone is the root; a trailing ":" is an empty verb *)
Definition Rtemplate (t : template) (s : bytes) : Prop :=
  is_literal (t_verb t) = true /\
  exists body,
    ((t_segs t = [SLit []] /\ body = []) \/
     (exists txts, Rsegs (t_segs t) txts /\ txts <> [] /\ body = join_with c_slash txts)) /\
    (s = c_slash :: body ++ c_colon :: t_verb t \/ (t_verb t = [] /\ s = c_slash :: body)).

(* ---------- the tokenizer only cuts: the tokens concatenate to the input, and none is empty ---------- *)
Definition ne (t : bytes) : Prop := t <> [].

Lemma scan_concat : forall s st cur, concat (scan st s cur) = rev cur ++ s.
Proof.
  induction s as [|c r IH]; intros st cur; cbn [scan].
  - destruct cur; cbn; [reflexivity | rewrite !app_nil_r; reflexivity].
  - destruct (is_delim st c).
    + rewrite concat_app. cbn [concat]. rewrite IH. cbn [rev app].
      destruct cur; cbn [concat app]; [reflexivity | rewrite app_nil_r; reflexivity].
    + rewrite IH. cbn [rev]. rewrite <- app_assoc. reflexivity.
Qed.

Lemma rev_ne {A} (a : A) l : rev (a :: l) <> [].
Proof. cbn. destruct (rev l); discriminate. Qed.

Lemma scan_ne : forall s st cur, Forall ne (scan st s cur).
Proof.
  induction s as [|c r IH]; intros st cur; cbn [scan].
  - destruct cur; [constructor | constructor; [apply rev_ne | constructor]].
  - destruct (is_delim st c); [|apply IH].
    apply Forall_app. split.
    + destruct cur; [constructor | constructor; [apply rev_ne | constructor]].
    + constructor; [discriminate | apply IH].
Qed.

(* ---------- index_of / last_index_of split the token at a colon ---------- *)
Lemma index_of_split c : forall t j i, index_of c t j = Some i ->
  (j <= i)%nat /\ t = firstn (i - j) t ++ c :: skipn (S (i - j)) t.
Proof.
  induction t as [|x r IH]; intros j i H; cbn [index_of] in H; [discriminate|].
  destruct (x =? c) eqn:E.
  - injection H as <-. apply N.eqb_eq in E. subst x. rewrite Nat.sub_diag. split; [lia | reflexivity].
  - destruct (IH _ _ H) as [L S']. split; [lia|].
    replace (i - j)%nat with (S (i - S j)) by lia. cbn [firstn skipn app]. f_equal. exact S'.
Qed.

Lemma last_index_of_split c : forall t j acc i, last_index_of c t j acc = Some i ->
  acc = Some i \/ ((j <= i)%nat /\ t = firstn (i - j) t ++ c :: skipn (S (i - j)) t).
Proof.
  induction t as [|x r IH]; intros j acc i H; cbn [last_index_of] in H; [left; exact H|].
  destruct (IH _ _ _ H) as [A|[L S']].
  - destruct (x =? c) eqn:E; [|left; exact A]. injection A as <-. apply N.eqb_eq in E. subst x.
    right. rewrite Nat.sub_diag. split; [lia | reflexivity].
  - right. split; [lia|]. replace (i - j)%nat with (S (i - S j)) by lia. cbn [firstn skipn app]. f_equal. exact S'.
Qed.

Lemma removelast_last_app {A} (l : list A) d : l <> [] -> l = removelast l ++ [last l d].
Proof. intros H. apply app_removelast_last, H. Qed.

Lemma Forall_removelast {A} (P : A -> Prop) l : Forall P l -> Forall P (removelast l).
Proof.
  induction l as [|a l IH]; intros H; [constructor|]. cbn [removelast]. inversion H; subst.
  destruct l; [constructor | constructor; [assumption | apply IH; assumption]].
Qed.

Lemma tokenize_sound path toks verb : gw_tokenize path = (toks, verb) ->
  exists toks0, toks = toks0 ++ [eof] /\ Forall ne toks0 /\
                (path = concat toks0 ++ c_colon :: verb \/ (verb = [] /\ path = concat toks0)).
Proof.
  unfold gw_tokenize. destruct path as [|p0 path'].
  - intros H. injection H as <- <-. exists []. split; [reflexivity|]. split; [constructor|]. right. auto.
  - set (path := p0 :: path'). set (tk0 := scan O path []).
    assert (C : concat tk0 = path) by (unfold tk0; rewrite scan_concat; reflexivity).
    assert (NE : Forall ne tk0) by apply scan_ne.
    set (t := last tk0 []).
    set (after_var := match rev tk0 with _ :: p :: _ => bytes_eqb p [c_rbrace] | _ => false end).
    assert (SPLIT : forall i, (if after_var then index_of c_colon t O else last_index_of c_colon t O None) = Some i ->
                              t = firstn i t ++ c_colon :: skipn (S i) t).
    { intros i H. destruct after_var.
      - apply index_of_split in H as [_ H]. rewrite Nat.sub_0_r in H. exact H.
      - apply last_index_of_split in H as [H|[_ H]]; [discriminate|]. rewrite Nat.sub_0_r in H. exact H. }
    destruct (if after_var then index_of c_colon t O else last_index_of c_colon t O None) as [i|] eqn:IDX.
    + specialize (SPLIT i eq_refl).
      assert (TN : tk0 <> []).
      { intros E. unfold t in SPLIT. rewrite E in SPLIT. cbn in SPLIT. destruct (firstn i []); discriminate. }
      assert (TK : tk0 = removelast tk0 ++ [t]) by (apply removelast_last_app; exact TN).
      assert (CC : path = concat (removelast tk0) ++ t).
      { rewrite <- C at 1. rewrite TK at 1. rewrite concat_app. cbn [concat]. rewrite app_nil_r. reflexivity. }
      destruct i as [|i]; intros H; injection H as <- <-.
      * exists (removelast tk0). split; [reflexivity|]. split; [apply Forall_removelast; exact NE|].
        left. rewrite CC at 1. rewrite SPLIT at 1. reflexivity.
      * exists (removelast tk0 ++ [firstn (S i) t]). split; [rewrite <- app_assoc; reflexivity|]. split.
        -- apply Forall_app. split; [apply Forall_removelast; exact NE|]. constructor; [|constructor].
           unfold ne. intros E. rewrite E in SPLIT. destruct t; [discriminate | cbn in E; discriminate].
        -- left. rewrite concat_app. cbn [concat]. rewrite app_nil_r, <- app_assoc. rewrite CC at 1. rewrite SPLIT at 1. reflexivity.
    + intros H. injection H as <- <-. exists tk0. split; [reflexivity|]. split; [exact NE|]. right. auto.
Qed.

(* ---------- field paths ---------- *)
Lemma tok_is_eq c t : tok_is c t = true -> t = [c].
Proof. unfold tok_is. intros H. apply bytes_eqb_eq in H. exact H. Qed.

Lemma fpr_sound : forall fuel toks acc path rest, gw_field_path_rest fuel toks acc = Some (path, rest) ->
  exists used more, toks = used ++ rest /\ path = acc ++ more /\ forallb is_ident more = true /\
                    concat used = flat_map (fun i => c_dot :: i) more.
Proof.
  induction fuel as [|f IH]; intros toks acc path rest H; cbn [gw_field_path_rest] in H; [discriminate|].
  destruct toks as [|d r].
  - injection H as <- <-. exists [], []. cbn. rewrite app_nil_r. auto.
  - destruct (tok_is c_dot d) eqn:D.
    + destruct r as [|c r']; [discriminate|]. destruct (is_ident c) eqn:I; [|discriminate].
      destruct (IH _ _ _ _ H) as (used & more & E1 & E2 & E3 & E4).
      apply tok_is_eq in D. subst d.
      exists ([c_dot] :: c :: used), (c :: more). split; [cbn; rewrite E1; reflexivity|]. split; [rewrite E2, <- app_assoc; reflexivity|].
      split; [cbn; rewrite I, E3; reflexivity|]. cbn. rewrite E4. reflexivity.
    + injection H as <- <-. exists [], []. cbn. rewrite app_nil_r. auto.
Qed.

Lemma field_path_sound toks path rest : gw_field_path toks = Some (path, rest) ->
  exists used, toks = used ++ rest /\ path <> [] /\ forallb is_ident path = true /\ concat used = join_with c_dot path.
Proof.
  unfold gw_field_path. destruct toks as [|c r]; [discriminate|]. destruct (is_ident c) eqn:I; [|discriminate].
  intros H. destruct (fpr_sound _ _ _ _ _ H) as (used & more & E1 & E2 & E3 & E4).
  exists (c :: used). split; [cbn; rewrite E1; reflexivity|]. subst path. split; [discriminate|].
  split; [cbn; rewrite I, E3; reflexivity|]. cbn. rewrite E4. reflexivity.
Qed.

(* ---------- segments ---------- *)
Definition inner_sound (inner : list bytes -> option (list seg * list bytes)) : Prop :=
  forall toks segs rest, Forall ne toks -> inner toks = Some (segs, rest) ->
    exists used txts, toks = used ++ rest /\ Rsegs segs txts /\ txts <> [] /\ concat used = join_with c_slash txts.

Lemma Forall_app_r {A} (P : A -> Prop) a b : Forall P (a ++ b) -> Forall P b.
Proof. intros H. apply Forall_app in H. tauto. Qed.

Lemma segment_sound inner toks sg rest : inner_sound inner -> Forall ne toks ->
  gw_segment false inner toks = Some (sg, rest) ->
  exists used txt, toks = used ++ rest /\ Rseg sg txt /\ concat used = txt.
Proof.
  intros IS NE. unfold gw_segment. destruct toks as [|t r]; [intros X; discriminate X|].
  rewrite !punct_strict, punct_s_strict. inversion NE as [|? ? Nt Nr]; subst.
  destruct (tok_is c_star t) eqn:T1.
  { intros H. injection H as <- <-. apply tok_is_eq in T1. subst t. exists [[c_star]], [c_star]. cbn. auto. }
  destruct (bytes_eqb t s_deep) eqn:T2.
  { intros H. injection H as <- <-. apply bytes_eqb_eq in T2. subst t. exists [s_deep], s_deep. cbn. auto. }
  destruct (is_literal t) eqn:T3.
  { intros H. injection H as <- <-. exists [t], t. cbn. rewrite app_nil_r. auto. }
  destruct (tok_is c_lbrace t) eqn:T4; [|intros X; discriminate X]. apply tok_is_eq in T4. subst t.
  destruct (gw_field_path r) as [[path r1]|] eqn:FP; [|intros X; discriminate X].
  destruct (field_path_sound _ _ _ FP) as (usedp & E1 & P1 & P2 & P3).
  destruct r1 as [|e r2]; [intros X; discriminate X|]. rewrite !punct_strict.
  assert (Nr2 : Forall ne r2).
  { rewrite E1 in Nr. apply Forall_app_r in Nr. inversion Nr; assumption. }
  destruct (tok_is c_eq e) eqn:Te.
  - apply tok_is_eq in Te. subst e.
    destruct (inner r2) as [[segs r3]|] eqn:IN; [|intros X; discriminate X].
    destruct (IS _ _ _ Nr2 IN) as (usedi & txts & E2 & RS & TN & CI).
    destruct r3 as [|c r4]; [intros X; discriminate X|]. rewrite punct_strict. destruct (tok_is c_rbrace c) eqn:Tc; [|intros X; discriminate X].
    apply tok_is_eq in Tc. subst c. intros H. injection H as <- <-.
    exists ([c_lbrace] :: usedp ++ [c_eq] :: usedi ++ [[c_rbrace]]),
           (c_lbrace :: join_with c_dot path ++ c_eq :: join_with c_slash txts ++ [c_rbrace]).
    split; [|split].
    + rewrite E1, E2. cbn. rewrite <- !app_assoc. cbn. rewrite <- !app_assoc. reflexivity.
    + apply Rseg_var. split; [exact P1|]. split; [exact P2|]. right. exists txts. auto.
    + cbn. rewrite !concat_app. cbn. rewrite !concat_app. cbn. rewrite P3, CI. reflexivity.
  - destruct (tok_is c_rbrace e) eqn:Tr; [|intros X; discriminate X]. apply tok_is_eq in Tr. subst e.
    intros H. injection H as <- <-.
    exists ([c_lbrace] :: usedp ++ [[c_rbrace]]), (c_lbrace :: join_with c_dot path ++ [c_rbrace]).
    split; [|split].
    + rewrite E1. cbn. rewrite <- app_assoc. reflexivity.
    + apply Rseg_var. split; [exact P1|]. split; [exact P2|]. left. auto.
    + cbn. rewrite concat_app. cbn. rewrite P3. reflexivity.
Qed.

Theorem segments_sound : forall fuel, inner_sound (gw_segments false fuel).
Proof.
  induction fuel as [|f IH]; intros toks segs rest NE H; cbn [gw_segments] in H; [discriminate|].
  destruct (gw_segment false (gw_segments false f) toks) as [[s r]|] eqn:SG; [|discriminate].
  destruct (segment_sound _ _ _ _ IH NE SG) as (used & txt & E1 & RS & CU).
  assert (ONE : exists used0 txts, toks = used0 ++ r /\ Rsegs [s] txts /\ txts <> [] /\ concat used0 = join_with c_slash txts).
  { exists used, [txt]. split; [exact E1|]. split; [cbn; auto|]. split; [discriminate|]. cbn. rewrite app_nil_r. exact CU. }
  destruct r as [|t r'].
  - injection H as <- <-. exact ONE.
  - rewrite punct_strict in H. destruct (tok_is c_slash t) eqn:Ts.
    + apply tok_is_eq in Ts. subst t.
      destruct (gw_segments false f r') as [[more r'']|] eqn:MORE; [|discriminate]. injection H as <- <-.
      assert (Nr' : Forall ne r').
      { rewrite E1 in NE. apply Forall_app_r in NE. inversion NE; assumption. }
      destruct (IH _ _ _ Nr' MORE) as (used2 & txts2 & E2 & RS2 & TN2 & CU2).
      exists (used ++ [c_slash] :: used2), (txt :: txts2). split; [|split; [|split]].
      * rewrite E1, E2, <- app_assoc. reflexivity.
      * cbn. auto.
      * discriminate.
      * rewrite concat_app. cbn [concat]. rewrite CU, CU2. destruct txts2 as [|b rr]; [congruence|]. reflexivity.
    + injection H as <- <-. exact ONE.
Qed.

(* ---------- the whole parser ---------- *)
Lemma concat_has_nul (toks0 : list bytes) rest : In 0 (concat ((0 :: rest) :: toks0)).
Proof. cbn. left. reflexivity. Qed.

Theorem gw_parse_sound s t : gw_parse false s = Some t -> Rtemplate t s.
Proof.
  unfold gw_parse. destruct s as [|c path]; [discriminate|].
  destruct ((c =? c_slash) && negb (existsb (N.eqb 0) (c :: path))) eqn:G; [|discriminate].
  apply andb_prop in G as [Gc Gn]. apply N.eqb_eq in Gc. subst c. apply negb_true_iff in Gn.
  assert (NONUL : ~ In 0 path).
  { intros I. assert (X : existsb (N.eqb 0) (c_slash :: path) = true).
    { apply existsb_exists. exists 0. split; [right; exact I | reflexivity]. }
    congruence. }
  destruct (gw_tokenize path) as [toks verb] eqn:TK.
  destruct (tokenize_sound _ _ _ TK) as (toks0 & E0 & NE0 & PATH).
  destruct (negb (is_literal verb)) eqn:LV; [discriminate|]. apply negb_false_iff in LV.
  assert (NULFREE : forall rest toks1, toks0 = (0 :: rest) :: toks1 -> False).
  { intros rest toks1 E. apply NONUL. destruct PATH as [P|[_ P]]; rewrite P, E; [apply in_or_app; left|]; apply concat_has_nul. }
  destruct toks as [|t0 tr]; [discriminate|].
  destruct (bytes_eqb t0 eof) eqn:EOF0.
  - (* the root *)
    intros H. injection H as <-. apply bytes_eqb_eq in EOF0. subst t0.
    assert (toks0 = []).
    { destruct toks0 as [|x toks1]; [reflexivity|]. exfalso. cbn in E0. injection E0 as <- _. eapply NULFREE. reflexivity. }
    subst toks0. split; [exact LV|]. exists []. split; [left; auto|]. cbn [t_verb t_segs]. cbn [concat app] in PATH.
    destruct PATH as [P|[V P]]; [left | right]; subst; auto.
  - destruct (gw_segments false (S (length (t0 :: tr))) (t0 :: tr)) as [[segs rest]|] eqn:SG; [|discriminate].
    destruct rest as [|e [|e2 rest']]; try discriminate.
    destruct (bytes_eqb e eof) eqn:EE; [|discriminate]. apply bytes_eqb_eq in EE. subst e.
    intros H. injection H as <-.
    assert (NEall : Forall ne (t0 :: tr)).
    { rewrite E0. apply Forall_app. split; [exact NE0 | constructor; [discriminate | constructor]]. }
    destruct (segments_sound _ _ _ _ NEall SG) as (used & txts & E1 & RS & TN & CU).
    assert (used = toks0).
    { rewrite E0 in E1. apply app_inj_tail in E1 as [E1 _]. symmetry. exact E1. }
    subst used. split; [exact LV|]. exists (join_with c_slash txts). split; [right; exists txts; auto|].
    cbn [t_verb t_segs]. rewrite <- CU. destruct PATH as [P|[V P]]; [left | right]; subst; auto.
Qed.

(* the theorem applies to concrete accepted strings (the hypothesis is met) - and pins their derivation *)
Definition ex_text : bytes :=  (* /v1/{name=shelves/*}/books:list *)
  [47;118;49;47;123;110;97;109;101;61;115;104;101;108;118;101;115;47;42;125;47;98;111;111;107;115;58;108;105;115;116].
Example ex_parsed : gw_parse false ex_text =
  Some {| t_segs := [SLit [118;49]; SVar [[110;97;109;101]] [SLit [115;104;101;108;118;101;115]; SWild]; SLit [98;111;111;107;115]];
          t_verb := [108;105;115;116] |}.
Proof. vm_compute. reflexivity. Qed.
Example ex_in_language : exists t, gw_parse false ex_text = Some t /\ Rtemplate t ex_text.
Proof. eexists. split; [exact ex_parsed | apply gw_parse_sound, ex_parsed]. Qed.
