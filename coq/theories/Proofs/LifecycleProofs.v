From GB Require Import Model.MDFilter Model.Lifecycle Proofs.MDFilterProofs.
From Coq Require Import Lia.
Open Scope Z_scope.

Lemma p_load_delete_same n p : p_load n (p_delete n p) = None.
Proof.
  induction p as [|[k e] p IH]; [reflexivity|]. simpl.
  destruct (bytes_eqb n k) eqn:E; simpl; [exact IH|]. rewrite E. exact IH.
Qed.
Lemma p_load_delete_other n k p : n <> k -> p_load k (p_delete n p) = p_load k p.
Proof.
  intros N. induction p as [|[k' e] p IH]; [reflexivity|]. simpl.
  destruct (bytes_eqb n k') eqn:E; simpl.
  - apply bytes_eqb_eq in E. subst k'. destruct (bytes_eqb k n) eqn:E2; [apply bytes_eqb_eq in E2; congruence | exact IH].
  - destruct (bytes_eqb k k'); [reflexivity | exact IH].
Qed.
Lemma p_load_store n e p k : p_load k (p_store n e p) = if bytes_eqb k n then Some e else p_load k p.
Proof.
  unfold p_store. simpl. destruct (bytes_eqb k n) eqn:E; [reflexivity|].
  apply p_load_delete_other. apply bytes_eqb_neq in E. congruence.
Qed.

(* invariant of every reachable state: no Reserved entry is ever left in the pool, and (router level)
   nothing is known about targets that the pool does not hold Ready *)
Definition no_reserved (s : lstate) : Prop := forall n, p_load n (l_pool s) <> Some Reserved.
Definition targets_ready (s : lstate) : Prop :=
  forall n, In n (l_targets s) -> exists c, p_load n (l_pool s) = Some (Ready c).

Lemma pool_new_inv n f s : no_reserved s -> no_reserved (fst (pool_new n f s)).
Proof.
  intros H. unfold pool_new. destruct (p_load n (l_pool s)) eqn:L; [exact H|].
  destruct f; intros k; cbn [fst l_pool].
  - destruct (bytes_eqb k n) eqn:E.
    + apply bytes_eqb_eq in E. subst k. rewrite p_load_delete_same. discriminate.
    + rewrite p_load_delete_other by (apply bytes_eqb_neq in E; congruence).
      rewrite p_load_store, E. apply H.
  - rewrite !p_load_store. destruct (bytes_eqb k n); [discriminate | apply H].
Qed.

Lemma pool_close_inv n s : no_reserved s -> no_reserved (pool_close n s).
Proof.
  intros H. unfold pool_close. destruct (p_load n (l_pool s)) as [[|c]|] eqn:L; try exact H.
  intros k. simpl. destruct (bytes_eqb k n) eqn:E.
  - apply bytes_eqb_eq in E. subst. rewrite p_load_delete_same. discriminate.
  - rewrite p_load_delete_other by (apply bytes_eqb_neq in E; congruence). apply H.
Qed.

Lemma lstep_inv s o : no_reserved s -> no_reserved (fst (lstep s o)).
Proof.
  intros H. destruct o as [n f|n|n|c|n f|n]; simpl.
  - pose proof (pool_new_inv n f s H). destruct (pool_new n f s) as [s' [[r g] w]]. exact H0.
  - apply pool_close_inv; exact H.
  - exact H.
  - exact H.
  - unfold router_add. destruct (existsb (bytes_eqb n) (l_targets s)); [exact H|].
    pose proof (pool_new_inv n f s H). destruct (pool_new n f s) as [s' [[r g] w]]. simpl in *.
    destruct (r =? 0); exact H0.
  - unfold router_remove. destruct (existsb (bytes_eqb n) (l_targets s)); [|exact H].
    simpl. apply (pool_close_inv n s H).
Qed.

Definition run_ops (ops : list lop) : lstate := fold_left (fun s o => fst (lstep s o)) ops l_init.

Theorem reachable_no_reserved ops : no_reserved (run_ops ops).
Proof.
  unfold run_ops. assert (G : forall s, no_reserved s -> no_reserved (fold_left (fun s o => fst (lstep s o)) ops s)).
  { induction ops as [|o ops IH]; intros s H; simpl; [exact H|]. apply IH. apply lstep_inv; exact H. }
  apply G. intros n. discriminate.
Qed.

(* Get is usable-or-absent in every reachable state ... *)
Theorem get_usable_or_absent ops n :
  (p_get n (l_pool (run_ops ops)) = 1 /\ exists c, p_load n (l_pool (run_ops ops)) = Some (Ready c)) \/
  (p_get n (l_pool (run_ops ops)) = 0 /\ p_load n (l_pool (run_ops ops)) = None).
Proof.
  pose proof (reachable_no_reserved ops n) as H. unfold p_get.
  destruct (p_load n (l_pool (run_ops ops))) as [[|c]|]; [congruence | left; eauto | right; auto].
Qed.

(* ... and also while the client of that very name is being constructed (re-entrant view): absent, and the name is taken *)
Theorem reserved_invisible n f s : p_load n (l_pool s) = None ->
  let '(_, (_, g, w)) := pool_new n f s in g = 0 /\ w = 1.
Proof.
  intros L. unfold pool_new. rewrite L. unfold p_get. rewrite p_load_store, bytes_eqb_refl.
  destruct f; auto.
Qed.

(* pool level: New succeeds iff the name is absent and the constructor succeeds; a failed New changes nothing *)
Theorem new_iff_absent n f s :
  (fst (fst (snd (pool_new n f s))) = 0 <-> p_load n (l_pool s) = None /\ f = false).
Proof.
  unfold pool_new. destruct (p_load n (l_pool s)); simpl; [split; [discriminate | intros [? _]; discriminate]|].
  destruct f; simpl; split; auto; try discriminate. intros [_ ?]; discriminate.
Qed.

Theorem failed_new_no_change n s k : p_load n (l_pool s) = None ->
  p_load k (l_pool (fst (pool_new n true s))) = p_load k (l_pool s) /\
  l_targets (fst (pool_new n true s)) = l_targets s /\ l_closed (fst (pool_new n true s)) = l_closed s.
Proof.
  intros L. unfold pool_new. rewrite L. cbn [fst l_pool l_targets l_closed]. split; [|auto].
  destruct (bytes_eqb k n) eqn:E.
  - apply bytes_eqb_eq in E. subst. rewrite p_load_delete_same. auto.
  - rewrite p_load_delete_other by (apply bytes_eqb_neq in E; congruence). rewrite p_load_store, E. reflexivity.
Qed.

(* router level *)
Lemma router_inv_step s o : no_reserved s -> targets_ready s ->
  (forall n, In n (l_targets s) <-> exists c, p_load n (l_pool s) = Some (Ready c)) ->
  match o with LAdd _ _ | LRemove _ => True | _ => False end ->
  let s' := fst (lstep s o) in
  (forall n, In n (l_targets s') <-> exists c, p_load n (l_pool s') = Some (Ready c)).
Proof.
  intros NR _ H Ho. destruct o as [| | | |n f|n]; try destruct Ho; simpl.
  - unfold router_add. destruct (existsb (bytes_eqb n) (l_targets s)) eqn:E; [exact H|].
    assert (NI : ~ In n (l_targets s)).
    { intros I. assert (existsb (bytes_eqb n) (l_targets s) = true) by (apply existsb_exists; exists n; split; [exact I | apply bytes_eqb_refl]). congruence. }
    assert (L : p_load n (l_pool s) = None).
    { destruct (p_load n (l_pool s)) as [[|c]|] eqn:L; [exfalso; exact (NR n L) | exfalso; apply NI; apply H; eauto | reflexivity]. }
    unfold pool_new. rewrite L. destruct f; cbn [fst snd l_pool l_targets Z.eqb].
    + intros k. rewrite H. destruct (bytes_eqb k n) eqn:E2.
      * apply bytes_eqb_eq in E2. subst k. rewrite p_load_delete_same, L. reflexivity.
      * rewrite p_load_delete_other by (apply bytes_eqb_neq in E2; congruence). rewrite p_load_store, E2. reflexivity.
    + intros k. rewrite !p_load_store. destruct (bytes_eqb k n) eqn:E2.
      * apply bytes_eqb_eq in E2. subst k. split; [eauto | intros _; left; reflexivity].
      * split.
        -- intros [->|I]; [rewrite bytes_eqb_refl in E2; discriminate | apply H; exact I].
        -- intros X. right. apply H. exact X.
  - unfold router_remove. destruct (existsb (bytes_eqb n) (l_targets s)) eqn:E; [|exact H]. simpl.
    intros k. rewrite filter_In, negb_true_iff.
    unfold pool_close. destruct (p_load n (l_pool s)) as [[|c]|] eqn:L; simpl.
    + exfalso; exact (NR n L).
    + destruct (bytes_eqb n k) eqn:E2.
      * apply bytes_eqb_eq in E2. subst k. rewrite p_load_delete_same. split; [intros [_ ?]; discriminate | intros [? ?]; discriminate].
      * rewrite p_load_delete_other by (apply bytes_eqb_neq in E2; exact E2). rewrite H. tauto.
    + destruct (bytes_eqb n k) eqn:E2.
      * apply bytes_eqb_eq in E2. subst k. split; [intros [_ ?]; discriminate | intros [c Hc]; congruence].
      * rewrite H. tauto.
Qed.

Definition router_op (o : lop) : Prop := match o with LAdd _ _ | LRemove _ => True | _ => False end.

Theorem router_targets_are_pool ops : Forall router_op ops ->
  forall n, In n (l_targets (run_ops ops)) <-> exists c, p_load n (l_pool (run_ops ops)) = Some (Ready c).
Proof.
  unfold run_ops.
  assert (G : forall s, no_reserved s ->
     (forall n, In n (l_targets s) <-> exists c, p_load n (l_pool s) = Some (Ready c)) ->
     Forall router_op ops ->
     forall n, In n (l_targets (fold_left (fun s o => fst (lstep s o)) ops s)) <->
               exists c, p_load n (l_pool (fold_left (fun s o => fst (lstep s o)) ops s)) = Some (Ready c)).
  { induction ops as [|o ops IH]; intros s NR H F; simpl; [exact H|].
    inversion F; subst. apply IH; [apply lstep_inv; exact NR | | assumption].
    apply (router_inv_step s o NR); auto. intros n I. apply H; exact I. }
  intros F. apply G; [intros n; discriminate | | exact F].
  intros n. simpl. split; [intros [] | intros [c Hc]; discriminate].
Qed.

(* C16 main statement: over any history of Adds (failing or not) and Removes, Add n with a working constructor
   succeeds iff n is not currently present *)
Theorem addable_iff_absent ops n : Forall router_op ops ->
  (snd (router_add n false (run_ops ops)) = 1 <-> ~ In n (l_targets (run_ops ops))).
Proof.
  intros F. pose proof (router_targets_are_pool ops F n) as H. pose proof (reachable_no_reserved ops n) as NR.
  unfold router_add. destruct (existsb (bytes_eqb n) (l_targets (run_ops ops))) eqn:E.
  - simpl. split; [discriminate|]. intros NI. exfalso. apply NI.
    apply existsb_exists in E as (x & I & Ex). apply bytes_eqb_eq in Ex. subst. exact I.
  - assert (NI : ~ In n (l_targets (run_ops ops))).
    { intros I. assert (existsb (bytes_eqb n) (l_targets (run_ops ops)) = true) by (apply existsb_exists; exists n; split; [exact I | apply bytes_eqb_refl]). congruence. }
    assert (L : p_load n (l_pool (run_ops ops)) = None).
    { destruct (p_load n (l_pool (run_ops ops))) as [[|c]|] eqn:L; [congruence | exfalso; apply NI; apply H; eauto | reflexivity]. }
    unfold pool_new. rewrite L. simpl. tauto.
Qed.

(* Remove: afterwards the name is absent from targets and pool, and its connection is closed *)
Theorem remove_effects s n c : In n (l_targets s) -> p_load n (l_pool s) = Some (Ready c) ->
  let s' := fst (router_remove n s) in
  ~ In n (l_targets s') /\ p_load n (l_pool s') = None /\ conn_stream c s' = 14 /\ snd (router_remove n s) = 1.
Proof.
  intros I L. unfold router_remove.
  assert (E : existsb (bytes_eqb n) (l_targets s) = true) by (apply existsb_exists; exists n; split; [exact I | apply bytes_eqb_refl]).
  rewrite E. simpl. unfold pool_close. rewrite L. simpl. repeat split.
  - intros X. apply filter_In in X as [_ X]. rewrite bytes_eqb_refl in X. discriminate.
  - apply p_load_delete_same.
  - unfold conn_stream. simpl. rewrite Z.eqb_refl. reflexivity.
Qed.

Example lifecycle_ex :
  run_lifecycle (VL [VL [VN 4; VS [97%N]; VN 1]; VL [VN 4; VS [97%N]; VN 0]; VL [VN 4; VS [97%N]; VN 0]; VL [VN 5; VS [97%N]]; VL [VN 4; VS [97%N]; VN 0]])
  = VL [VL [VN 0]; VL [VN 1]; VL [VN 0]; VL [VN 1]; VL [VN 1]].
Proof. vm_compute. reflexivity. Qed.
