(* C05, the other half: against ANY conformant server the dependency search SUCCEEDS - the resolver ends up with a set of
   the server's files that contains the defining file of every requested service, whatever the answering policy (full
   closures, only the requested file, nothing that was already sent on the stream, any order, extra files).
   "Conformant" is stated on the answering functions: an answer consists of the server's own files, none ranked above the
   requested one (the requested file and some of its transitive dependencies), and contains the requested file unless
   that was already sent on this stream.  [rank] is any topological rank of the server's dependency graph (dependencies
   rank strictly lower: the graph is acyclic); the recursion limit must exceed the ranks (the depth of the graph). *)
From GB Require Import Model.ReflProto Proofs.ReflProtoProofs.
From Coq Require Import Lia.
Open Scope Z_scope.

Lemma filter_nil_all {A} (p : A -> bool) l : (forall x, In x l -> p x = false) -> filter p l = [].
Proof.
  induction l as [|a l IH]; intros H; [reflexivity|]. cbn [filter]. rewrite (H a (or_introl eq_refl)). apply IH. intros x Hx. apply H. right. exact Hx.
Qed.

Lemma in_fnames f l : In f l -> In (rf_name f) (fnames l).
Proof. intros H. unfold fnames. apply in_map. exact H. Qed.

Section Complete.
  Variable U : list rfile.
  Variable rank : bytes -> nat.
  Hypothesis U_deps : forall f d, In f U -> In d (rf_deps f) -> In d (fnames U) /\ (rank d < rank (rf_name f))%nat.

  Variable ans_sym ans_file : list bytes -> bytes -> option (list rfile).

  (* the server's files, none ranked above the requested one; the requested one unless already sent *)
  Definition file_conformant : Prop := forall sent q, In q (fnames U) ->
    exists fs, ans_file sent q = Some fs /\
      (forall f, In f fs -> In f U /\ (rank (rf_name f) <= rank q)%nat) /\ (In q (fnames fs) \/ In q sent).

  Definition defines (f : rfile) (s : bytes) : Prop := exists sv, In sv (rf_svcs f) /\ rs_name sv = s.

  (* the server's files; the file that defines the symbol unless that file was already sent *)
  Definition sym_conformant : Prop := forall sent s, (exists f, In f U /\ defines f s) ->
    exists fs, ans_sym sent s = Some fs /\ (forall f, In f fs -> In f U) /\
      exists f, In f U /\ defines f s /\ (In (rf_name f) (fnames fs) \/ In (rf_name f) sent).

  Hypothesis FC : file_conformant.
  Hypothesis SC : sym_conformant.

  (* ---- one batch of file requests ---- *)
  Lemma batch_file : forall reqs sent, (forall q, In q reqs -> In q (fnames U)) ->
    exists raw, batch ans_file sent reqs = Some (raw, sent ++ fnames raw) /\
      (forall f, In f raw -> In f U /\ exists q, In q reqs /\ (rank (rf_name f) <= rank q)%nat) /\
      (forall q, In q reqs -> In q (fnames raw) \/ In q sent).
  Proof.
    induction reqs as [|q reqs IH]; intros sent HU.
    - exists []. cbn [batch fnames map]. rewrite app_nil_r. split; [reflexivity|]. split; [intros f []|intros q []].
    - destruct (FC sent q (HU q (or_introl eq_refl))) as (fs & A & B & C).
      destruct (IH (sent ++ fnames fs) (fun x Hx => HU x (or_intror Hx))) as (rest & E & F & G).
      exists (fs ++ rest). cbn [batch]. rewrite A, E. unfold fnames. rewrite map_app, app_assoc. split; [reflexivity|]. split.
      + intros f Hf. apply in_app_or in Hf. destruct Hf as [Hf|Hf].
        * destruct (B f Hf) as [B1 B2]. split; [exact B1|]. exists q. split; [left; reflexivity | exact B2].
        * destruct (F f Hf) as [F1 (q' & Q1 & Q2)]. split; [exact F1|]. exists q'. split; [right; exact Q1 | exact Q2].
      + intros q' [<-|Hq].
        * destruct C as [C|C]; [left; apply in_or_app; left; exact C | right; exact C].
        * destruct (G q' Hq) as [G1|G1]; [left; apply in_or_app; right; exact G1|].
          apply in_app_or in G1. destruct G1 as [G1|G1]; [right; exact G1 | left; apply in_or_app; left; exact G1].
  Qed.

  (* ---- the breadth-first search ---- *)
  Lemma bfs_complete : forall fuel sent set missing,
    (forall m, In m missing -> In m (fnames U) /\ (rank m < fuel)%nat) ->
    (forall x, In x sent -> In x (fnames set)) ->
    (forall f, In f set -> In f U) ->
    (forall m, In m missing -> ~ In m (fnames set)) ->
    exists res, bfs ans_file fuel sent set missing = Some res /\ (forall f, In f res -> In f U) /\ (forall f, In f set -> In f res).
  Proof.
    induction fuel as [|fuel IH]; intros sent set missing HM HS HU HN.
    - destruct missing as [|m missing]; [exists set; cbn; auto|]. destruct (HM m (or_introl eq_refl)) as [_ X]. lia.
    - destruct missing as [|m0 mr]; [exists set; cbn; auto|].
      cbn [bfs]. remember (m0 :: mr) as missing eqn:EM.
      destruct (batch_file missing sent (fun q Hq => proj1 (HM q Hq))) as (raw & E & F & G). rewrite E.
      set (resp := dedupe [] raw). set (present := fnames set).
      assert (STILL : filter (fun m => negb (mem_b m (fnames resp))) missing = []).
      { apply filter_nil_all. intros m Hm. apply negb_false_iff. apply mem_b_In.
        destruct (G m Hm) as [G1|G1].
        - unfold fnames in G1. apply in_map_iff in G1. destruct G1 as (f & <- & Hf). exact (dedupe_keeps_names raw f Hf).
        - exfalso. exact (HN m Hm (HS m G1)). }
      rewrite STILL.
      set (fresh := filter (fun x => negb (mem_b (rf_name x) present)) resp).
      assert (RESP_U : forall f, In f resp -> In f U /\ exists q, In q missing /\ (rank (rf_name f) <= rank q)%nat).
      { intros f Hf. apply F. exact (dedupe_sub raw f Hf). }
      destruct (IH (sent ++ fnames raw) (set ++ fresh) (deps_missing resp (present ++ fnames resp))) as (res & R1 & R2 & R3).
      + intros m' Hm'. apply deps_missing_In in Hm'. destruct Hm' as [(g & Hg & Hd) _].
        destruct (RESP_U g Hg) as [GU (q & Hq & RQ)]. destruct (U_deps g m' GU Hd) as [D1 D2].
        split; [exact D1|]. destruct (HM q Hq) as [_ RQ2]. lia.
      + intros x Hx. apply in_app_or in Hx. unfold fnames. rewrite map_app. apply in_or_app. destruct Hx as [Hx|Hx]; [left; exact (HS x Hx)|].
        unfold fnames in Hx. apply in_map_iff in Hx. destruct Hx as (f & <- & Hf).
        pose proof (dedupe_keeps_names raw f Hf) as K. fold resp in K.
        destruct (mem_b (rf_name f) present) eqn:P; [left; apply mem_b_In; exact P|].
        right. unfold fnames in K. apply in_map_iff in K. destruct K as (g & EG & Hg).
        apply in_map_iff. exists g. split; [exact EG|]. unfold fresh. apply filter_In. split; [exact Hg|]. rewrite EG, P. reflexivity.
      + intros f Hf. apply in_app_or in Hf. destruct Hf as [Hf|Hf]; [exact (HU f Hf)|].
        unfold fresh in Hf. apply filter_In in Hf. exact (proj1 (RESP_U f (proj1 Hf))).
      + intros m' Hm' Hin. apply deps_missing_In in Hm'. destruct Hm' as [_ NP]. apply NP.
        unfold fnames in Hin. rewrite map_app in Hin. apply in_app_or in Hin. apply in_or_app. destruct Hin as [Hin|Hin]; [left; exact Hin|].
        right. apply in_map_iff in Hin. destruct Hin as (g & EG & Hg). unfold fresh in Hg. apply filter_In in Hg. rewrite <- EG. exact (in_fnames g resp (proj1 Hg)).
      + exists res. split; [exact R1|]. split; [exact R2|]. intros f Hf. apply R3. apply in_or_app. left. exact Hf.
  Qed.

  (* ---- one batch of symbol requests ---- *)
  Lemma batch_sym : forall names sent, (forall s, In s names -> exists f, In f U /\ defines f s) ->
    exists raw, batch ans_sym sent names = Some (raw, sent ++ fnames raw) /\ (forall f, In f raw -> In f U) /\
      (forall s, In s names -> exists f, In f U /\ defines f s /\ (In (rf_name f) (fnames raw) \/ In (rf_name f) sent)).
  Proof.
    induction names as [|s names IH]; intros sent HD.
    - exists []. cbn [batch fnames map]. rewrite app_nil_r. split; [reflexivity|]. split; [intros f []|intros s []].
    - destruct (SC sent s (HD s (or_introl eq_refl))) as (fs & A & B & (fd & D1 & D2 & D3)).
      destruct (IH (sent ++ fnames fs) (fun x Hx => HD x (or_intror Hx))) as (rest & E & F & G).
      exists (fs ++ rest). cbn [batch]. rewrite A, E. unfold fnames. rewrite map_app, app_assoc. split; [reflexivity|]. split.
      + intros f Hf. apply in_app_or in Hf. destruct Hf as [Hf|Hf]; [exact (B f Hf) | exact (F f Hf)].
      + intros s' [<-|Hs].
        * exists fd. split; [exact D1|]. split; [exact D2|]. destruct D3 as [D3|D3]; [left; apply in_or_app; left; exact D3 | right; exact D3].
        * destruct (G s' Hs) as (g & G1 & G2 & G3). exists g. split; [exact G1|]. split; [exact G2|].
          destruct G3 as [G3|G3]; [left; apply in_or_app; right; exact G3|].
          apply in_app_or in G3. destruct G3 as [G3|G3]; [right; exact G3 | left; apply in_or_app; left; exact G3].
  Qed.

  (* ---- the whole search ---- *)
  Theorem collect_complete limit names :
    (forall n, In n (fnames U) -> (rank n < limit)%nat) ->
    (forall s, In s names -> exists f, In f U /\ defines f s) ->
    exists res, collect ans_sym ans_file limit names = Some res /\
      (forall f, In f res -> In f U) /\
      (forall s, In s names -> exists f, In f U /\ defines f s /\ In (rf_name f) (fnames res)).
  Proof.
    intros HL HD. unfold collect.
    destruct (batch_sym names [] HD) as (raw & E & F & G). rewrite E. cbn [app].
    set (set0 := dedupe [] raw).
    assert (S0U : forall f, In f set0 -> In f U) by (intros f Hf; apply F; exact (dedupe_sub raw f Hf)).
    destruct (bfs_complete limit (fnames raw) set0 (deps_missing set0 (fnames set0))) as (res & R1 & R2 & R3).
    - intros m Hm. apply deps_missing_In in Hm. destruct Hm as [(g & Hg & Hd) _].
      destruct (U_deps g m (S0U g Hg) Hd) as [D1 D2]. split; [exact D1 | exact (HL m D1)].
    - intros x Hx. unfold fnames in Hx. apply in_map_iff in Hx. destruct Hx as (f & <- & Hf). exact (dedupe_keeps_names raw f Hf).
    - exact S0U.
    - intros m Hm. apply deps_missing_In in Hm. exact (proj2 Hm).
    - exists res. split; [exact R1|]. split; [exact R2|].
      intros s Hs. destruct (G s Hs) as (f & F1 & F2 & [F3|[]]). exists f. split; [exact F1|]. split; [exact F2|].
      unfold fnames in F3. apply in_map_iff in F3. destruct F3 as (g & EG & Hg).
      pose proof (dedupe_keeps_names raw g Hg) as K. fold set0 in K. rewrite EG in K.
      unfold fnames in K. apply in_map_iff in K. destruct K as (h & EH & Hh). rewrite <- EH. apply in_fnames. apply R3. exact Hh.
  Qed.

  (* ---- and the description is built: every requested service is found in the collected set ---- *)
  Hypothesis U_nodup : NoDup (fnames U).

  Lemma same_name_same_file : forall f g, In f U -> In g U -> rf_name f = rf_name g -> f = g.
  Proof.
    clear FC SC U_deps. induction U as [|a l IH]; intros f g Hf Hg E; [destruct Hf|].
    cbn [fnames map] in U_nodup. inversion U_nodup as [|? ? NI ND]; subst.
    destruct Hf as [<-|Hf], Hg as [<-|Hg]; [reflexivity | | | exact (IH ND f g Hf Hg E)].
    - exfalso. apply NI. rewrite E. exact (in_fnames g l Hg).
    - exfalso. apply NI. rewrite <- E. exact (in_fnames f l Hf).
  Qed.

  Lemma find_svc_some s : forall set, (exists f, In f set /\ defines f s) -> exists sv, find_svc s set = Some sv /\ rs_name sv = s.
  Proof.
    induction set as [|a set IH]; intros (f & Hf & D); [destruct Hf|]. cbn [find_svc].
    destruct (filter (fun sv => bytes_eqb (rs_name sv) s) (rf_svcs a)) as [|sv l] eqn:FL.
    - destruct Hf as [<-|Hf].
      + exfalso. destruct D as (sv & I1 & I2). assert (In sv (filter (fun x => bytes_eqb (rs_name x) s) (rf_svcs a))) as X.
        { apply filter_In. split; [exact I1|]. rewrite I2. apply beq_refl. }
        rewrite FL in X. destruct X.
      + apply IH. exists f. auto.
    - exists sv. split; [reflexivity|]. assert (In sv (filter (fun x => bytes_eqb (rs_name x) s) (rf_svcs a))) as X by (rewrite FL; left; reflexivity).
      apply filter_In in X. exact (beq_true _ _ (proj2 X)).
  Qed.

  Theorem describe_complete limit names :
    (forall n, In n (fnames U) -> (rank n < limit)%nat) ->
    (forall s, In s names -> exists f, In f U /\ defines f s) ->
    exists res svcs, collect ans_sym ans_file limit names = Some res /\ describe names res = Some svcs /\ map rs_name svcs = names.
  Proof.
    intros HL HD. destruct (collect_complete limit names HL HD) as (res & C1 & C2 & C3). exists res.
    assert (DS : forall l, (forall s, In s l -> In s names) -> exists svcs, describe l res = Some svcs /\ map rs_name svcs = l).
    { induction l as [|s l IH]; intros SUB; [exists []; auto|].
      destruct (IH (fun x Hx => SUB x (or_intror Hx))) as (svcs & D1 & D2).
      destruct (C3 s (SUB s (or_introl eq_refl))) as (f & F1 & F2 & F3).
      assert (FR : In f res).
      { unfold fnames in F3. apply in_map_iff in F3. destruct F3 as (g & EG & Hg). rewrite <- (same_name_same_file g f (C2 g Hg) F1 EG). exact Hg. }
      destruct (find_svc_some s res (ex_intro _ f (conj FR F2))) as (sv & S1 & S2).
      exists (sv :: svcs). cbn [describe map]. rewrite S1, D1, S2, D2. auto. }
    destruct (DS names (fun s H => H)) as (svcs & D1 & D2). exists svcs. auto.
  Qed.
End Complete.

(* ---- the hypotheses are met by a concrete server: two files, the service's file depends on the other, and a server that
   answers every request with exactly the requested file (python grpclib's policy) ---- *)
Definition ex_b : rfile := {| rf_name := [98]%N; rf_deps := []; rf_svcs := [] |}.
Definition ex_a : rfile := {| rf_name := [97]%N; rf_deps := [[98]%N]; rf_svcs := [{| rs_name := [83]%N; rs_methods := [] |}] |}.
Definition ex_U : list rfile := [ex_a; ex_b].
Definition ex_rank (n : bytes) : nat := if bytes_eqb n [97]%N then 1%nat else 0%nat.
Definition ex_file (_ : list bytes) (q : bytes) : option (list rfile) := match u_find q ex_U with Some f => Some [f] | None => None end.
Definition ex_sym (_ : list bytes) (s : bytes) : option (list rfile) := match u_symbol s ex_U with Some f => Some [f] | None => None end.

Example ex_describe : exists res svcs, collect ex_sym ex_file 2 [[83]%N] = Some res /\ describe [[83]%N] res = Some svcs /\ map rs_name svcs = [[83]%N].
Proof.
  apply (describe_complete ex_U ex_rank).
  - intros f d [<-|[<-|[]]] Hd; cbn in Hd; [destruct Hd as [<-|[]]; split; [right; left; reflexivity | cbn; lia] | destruct Hd].
  - intros sent q [<-|[<-|[]]]; [exists [ex_a] | exists [ex_b]]; (split; [reflexivity|]; split; [intros f [<-|[]]; split; [cbn; auto | cbn; lia] | left; left; reflexivity]).
  - intros sent s (f & [<-|[<-|[]]] & (sv & Hsv & <-)); cbn in Hsv; [destruct Hsv as [<-|[]] | destruct Hsv].
    exists [ex_a]. split; [reflexivity|]. split; [intros g [<-|[]]; left; reflexivity|].
    exists ex_a. split; [left; reflexivity|]. split; [exists {| rs_name := [83]%N; rs_methods := [] |}; split; [left; reflexivity | reflexivity] | left; left; reflexivity].
  - repeat constructor; cbn; intuition discriminate.
  - intros n [<-|[<-|[]]]; cbn; lia.
  - intros s [<-|[]]. exists ex_a. split; [left; reflexivity|]. exists {| rs_name := [83]%N; rs_methods := [] |}. split; [left; reflexivity | reflexivity].
Qed.
