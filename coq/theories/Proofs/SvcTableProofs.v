(* The service table of routing.ServiceRouter (Model/Routers.v: update_routes / remove_starget / hand_over):
   representation invariant against the abstract spec "latest description of every live target", for every history. *)
From GB Require Import Model.MDFilter Model.Routers Proofs.MDFilterProofs Proofs.RoutersProofs.
From Coq Require Import Lia Bool.

Lemma beq_sym a b : bytes_eqb a b = bytes_eqb b a.
Proof.
  destruct (bytes_eqb a b) eqn:E, (bytes_eqb b a) eqn:F; auto.
  - apply bytes_eqb_eq in E; subst; rewrite bytes_eqb_refl in F; discriminate.
  - apply bytes_eqb_eq in F; subst; rewrite bytes_eqb_refl in E; discriminate.
Qed.

Definition mem (k : bytes) (l : list bytes) : bool := existsb (bytes_eqb k) l.
Lemma mem_In k l : mem k l = true <-> In k l.
Proof.
  unfold mem. rewrite existsb_exists. split.
  - intros (x & I & E). apply bytes_eqb_eq in E. subst. exact I.
  - intros I. exists k. split; [exact I | apply bytes_eqb_refl].
Qed.

(* ---------------- the sync.Map as an association list ---------------- *)
Lemma s_load_delete k svc t : s_load k (s_delete svc t) = if bytes_eqb k svc then None else s_load k t.
Proof.
  unfold s_delete. induction t as [|[k' v] t IH]; simpl.
  - destruct (bytes_eqb k svc); reflexivity.
  - destruct (bytes_eqb svc k') eqn:E; simpl.
    + apply bytes_eqb_eq in E. subst k'. rewrite IH. destruct (bytes_eqb k svc); reflexivity.
    + rewrite IH. destruct (bytes_eqb k k') eqn:E2; [|reflexivity].
      apply bytes_eqb_eq in E2. subst k'. rewrite beq_sym in E. rewrite E. reflexivity.
Qed.

Lemma s_load_store k svc v t : s_load k (s_store svc v t) = if bytes_eqb k svc then Some v else s_load k t.
Proof. unfold s_store. simpl. rewrite s_load_delete. destruct (bytes_eqb k svc); reflexivity. Qed.

Lemma s_load_fold_delete l : forall t k,
  s_load k (fold_left (fun t s => s_delete s t) l t) = if mem k l then None else s_load k t.
Proof.
  induction l as [|a l IH]; intros t k; [reflexivity|]. cbn [fold_left]. rewrite IH, s_load_delete.
  unfold mem. simpl. destruct (bytes_eqb k a); simpl; destruct (existsb (bytes_eqb k) l); reflexivity.
Qed.

Lemma c_get_delete m n c : c_get m (c_delete n c) = if bytes_eqb m n then [] else c_get m c.
Proof.
  unfold c_delete. induction c as [|[k v] c IH]; simpl.
  - destruct (bytes_eqb m n); reflexivity.
  - destruct (bytes_eqb n k) eqn:E; simpl.
    + apply bytes_eqb_eq in E. subst k. rewrite IH. destruct (bytes_eqb m n); reflexivity.
    + rewrite IH. destruct (bytes_eqb m k) eqn:E2; [|reflexivity].
      apply bytes_eqb_eq in E2. subst k. rewrite beq_sym in E. rewrite E. reflexivity.
Qed.

Lemma c_get_append m n svc c : c_get m (c_append n svc c) = if bytes_eqb m n then c_get m c ++ [svc] else c_get m c.
Proof.
  induction c as [|[k v] c IH]; simpl.
  - destruct (bytes_eqb m n); reflexivity.
  - destruct (bytes_eqb n k) eqn:E; simpl.
    + apply bytes_eqb_eq in E. subst k. destruct (bytes_eqb m n); reflexivity.
    + destruct (bytes_eqb m k) eqn:E2; [|exact IH].
      apply bytes_eqb_eq in E2. subst k. rewrite beq_sym in E. rewrite E. reflexivity.
Qed.

(* ---------------- ownership ---------------- *)
Definition owned (n k : bytes) (t : stable) : bool :=
  match s_load k t with Some r => bytes_eqb (sr_target r) n | None => false end.
Definition free (n k : bytes) (t : stable) : bool :=
  match s_load k t with Some r => bytes_eqb (sr_target r) n | None => true end.
Definition lists (k : bytes) (ss : list sdesc) : bool := existsb (fun s => bytes_eqb (s_name s) k) ss.

Lemma owned_free n k t : owned n k t = true -> free n k t = true.
Proof. unfold owned, free. destruct (s_load k t); [auto | discriminate]. Qed.

(* ---------------- claim_services (first loop of updateRoutes) ---------------- *)
Definition mk_sr (n : bytes) (id : Z) (i : nat) : sroute := {| sr_target := n; sr_desc := id; sr_idx := i |}.

Lemma claim_step n id i s ss t cl :
  claim_services n id i (s :: ss) t cl =
  if free n (s_name s) t
  then claim_services n id (S i) ss (s_store (s_name s) (mk_sr n id i) t) (cl ++ [s_name s])
  else claim_services n id (S i) ss t cl.
Proof.
  unfold free. cbn [claim_services]. destruct (s_load (s_name s) t) as [old|]; [|reflexivity].
  destruct (bytes_eqb (sr_target old) n); reflexivity.
Qed.

Lemma claim_spec n id : forall ss i t cl k,
  (lists k ss && free n k t = false -> s_load k (fst (claim_services n id i ss t cl)) = s_load k t) /\
  (lists k ss && free n k t = true -> exists j s,
      s_load k (fst (claim_services n id i ss t cl)) = Some (mk_sr n id j) /\ (i <= j)%nat /\
      nth_error ss (j - i) = Some s /\ s_name s = k) /\
  (In k (snd (claim_services n id i ss t cl)) <-> In k cl \/ lists k ss && free n k t = true).
Proof.
  induction ss as [|s ss IH]; intros i t cl k.
  - cbn [claim_services lists existsb andb fst snd]. split; [reflexivity|]. split; [discriminate|].
    split; [auto | intros [H|H]; [exact H | discriminate]].
  - rewrite claim_step. destruct (free n (s_name s) t) eqn:F.
    + set (t1 := s_store (s_name s) (mk_sr n id i) t).
      destruct (IH (S i) t1 (cl ++ [s_name s]) k) as (I1 & I2 & I3).
      destruct (bytes_eqb (s_name s) k) eqn:E.
      * apply bytes_eqb_eq in E. subst k.
        assert (F1 : free n (s_name s) t1 = true).
        { unfold free, t1. rewrite s_load_store, bytes_eqb_refl. simpl. apply bytes_eqb_refl. }
        assert (L : lists (s_name s) (s :: ss) = true) by (unfold lists; simpl; rewrite bytes_eqb_refl; reflexivity).
        rewrite L, F. rewrite F1 in I1, I2, I3. split; [discriminate|]. split.
        -- intros _. destruct (lists (s_name s) ss) eqn:Ls.
           ++ destruct (I2 eq_refl) as (j & s' & Hl & Hj & Hn & Hs). exists j, s'. split; [exact Hl|]. split; [lia|]. split; [|exact Hs].
              replace (j - i)%nat with (S (j - S i)) by lia. exact Hn.
           ++ exists i, s. rewrite (I1 eq_refl). unfold t1. rewrite s_load_store, bytes_eqb_refl, Nat.sub_diag. auto.
        -- split; [auto|]. intros _. apply I3. left. apply in_or_app. right. left. reflexivity.
      * assert (L : lists k (s :: ss) = lists k ss) by (unfold lists; simpl; rewrite E; reflexivity).
        assert (E' : bytes_eqb k (s_name s) = false) by (rewrite beq_sym; exact E).
        assert (F1 : free n k t1 = free n k t) by (unfold free, t1; rewrite s_load_store, E'; reflexivity).
        assert (S1 : s_load k t1 = s_load k t) by (unfold t1; rewrite s_load_store, E'; reflexivity).
        rewrite L. rewrite F1, S1 in *. split; [exact I1|]. split.
        -- intros H. destruct (I2 H) as (j & s' & Hl & Hj & Hn & Hs). exists j, s'. split; [exact Hl|]. split; [lia|]. split; [|exact Hs].
           replace (j - i)%nat with (S (j - S i)) by lia. exact Hn.
        -- rewrite I3. split; (intros [H|H]; [left | right; exact H]).
           ++ apply in_app_or in H as [H|[H|[]]]; [exact H|]. apply bytes_eqb_neq in E. congruence.
           ++ apply in_or_app. left. exact H.
    + destruct (IH (S i) t cl k) as (I1 & I2 & I3).
      destruct (bytes_eqb (s_name s) k) eqn:E.
      * apply bytes_eqb_eq in E. subst k. rewrite F in *. rewrite !andb_false_r in *.
        split; [exact I1|]. split; [discriminate | exact I3].
      * assert (L : lists k (s :: ss) = lists k ss) by (unfold lists; simpl; rewrite E; reflexivity).
        rewrite L. split; [exact I1|]. split; [|exact I3].
        intros H. destruct (I2 H) as (j & s' & Hl & Hj & Hn & Hs). exists j, s'. split; [exact Hl|]. split; [lia|]. split; [|exact Hs].
        replace (j - i)%nat with (S (j - S i)) by lia. exact Hn.
Qed.

(* ---------------- handOver ---------------- *)
Definition ho_f (by_ : bytes) (ds : sdescs) : stable * claims -> bytes -> stable * claims :=
  fun tc svc =>
      match first_lister svc (sd_delete by_ ds) with
      | Some (n, d, i) =>
          match s_load svc (fst tc) with
          | None => (s_store svc {| sr_target := n; sr_desc := d_id d; sr_idx := i |} (fst tc), c_append n svc (snd tc))
          | Some _ => tc
          end
      | None => tc
      end.

Lemma hand_over_eq released by_ t c ds : hand_over released by_ t c ds = fold_left (ho_f by_ ds) released (t, c).
Proof. reflexivity. Qed.

Definition ho_new (by_ : bytes) (ds : sdescs) (k : bytes) : option sroute :=
  match first_lister k (sd_delete by_ ds) with
  | Some (m, dm, i) => Some (mk_sr m (d_id dm) i)
  | None => None
  end.

Lemma ho_f_load by_ ds tc svc k :
  s_load k (fst (ho_f by_ ds tc svc)) =
  if bytes_eqb k svc then match s_load k (fst tc) with Some r => Some r | None => ho_new by_ ds k end
  else s_load k (fst tc).
Proof.
  unfold ho_f, ho_new. destruct (bytes_eqb k svc) eqn:E.
  - apply bytes_eqb_eq in E. subst k. destruct (first_lister svc (sd_delete by_ ds)) as [[[m dm] i]|].
    + destruct (s_load svc (fst tc)) eqn:L; cbn [fst]; [rewrite L; reflexivity|].
      rewrite s_load_store, bytes_eqb_refl. reflexivity.
    + destruct (s_load svc (fst tc)); reflexivity.
  - destruct (first_lister svc (sd_delete by_ ds)) as [[[m dm] i]|]; [|reflexivity].
    destruct (s_load svc (fst tc)); cbn [fst]; [reflexivity|]. rewrite s_load_store, E. reflexivity.
Qed.

Lemma ho_load by_ ds : forall released tc k,
  s_load k (fst (fold_left (ho_f by_ ds) released tc)) =
  if mem k released then match s_load k (fst tc) with Some r => Some r | None => ho_new by_ ds k end
  else s_load k (fst tc).
Proof.
  induction released as [|svc rest IH]; intros tc k; [reflexivity|].
  cbn [fold_left]. rewrite IH, ho_f_load. unfold mem. cbn [existsb]. fold (mem k rest).
  destruct (bytes_eqb k svc); cbn [orb].
  - destruct (mem k rest); destruct (s_load k (fst tc)); try reflexivity. destruct (ho_new by_ ds k); reflexivity.
  - reflexivity.
Qed.

Lemma ho_f_claims by_ ds tc svc m k :
  In k (c_get m (snd (ho_f by_ ds tc svc))) <->
  In k (c_get m (snd tc)) \/ (k = svc /\ s_load k (fst tc) = None /\ exists dm i, first_lister k (sd_delete by_ ds) = Some (m, dm, i)).
Proof.
  unfold ho_f. destruct (first_lister svc (sd_delete by_ ds)) as [[[m' dm'] i']|] eqn:FL.
  - destruct (s_load svc (fst tc)) eqn:L; cbn [snd].
    + split; [auto|]. intros [H|(-> & H & _)]; [exact H | congruence].
    + rewrite c_get_append. destruct (bytes_eqb m m') eqn:E.
      * apply bytes_eqb_eq in E. subst m'. split.
        -- intros H. apply in_app_or in H as [H|[H|[]]]; [left; exact H|]. subst k. right. split; [reflexivity|]. split; [exact L|]. eauto.
        -- intros [H|(-> & _ & _)]; apply in_or_app; [left; exact H | right; left; reflexivity].
      * split; [auto|]. intros [H|(-> & _ & dm & i & H)]; [exact H|]. rewrite FL in H. injection H as -> _ _.
        rewrite bytes_eqb_refl in E. discriminate.
  - split; [auto|]. intros [H|(-> & _ & dm & i & H)]; [exact H|]. rewrite FL in H. discriminate.
Qed.

Lemma ho_claims by_ ds : forall released tc m k,
  In k (c_get m (snd (fold_left (ho_f by_ ds) released tc))) <->
  In k (c_get m (snd tc)) \/
  (mem k released = true /\ s_load k (fst tc) = None /\ exists dm i, first_lister k (sd_delete by_ ds) = Some (m, dm, i)).
Proof.
  induction released as [|svc rest IH]; intros tc m k.
  - cbn [fold_left]. split; [auto|]. intros [H|(H & _)]; [exact H | discriminate].
  - cbn [fold_left]. rewrite IH, ho_f_claims, ho_f_load. unfold mem. cbn [existsb]. fold (mem k rest).
    destruct (bytes_eqb k svc) eqn:E.
    + apply bytes_eqb_eq in E. subst svc. cbn [orb]. split.
      * intros [[H|(_ & H)]|(_ & H & H2)]; [left; exact H | right; split; [reflexivity | exact H] |].
        right. split; [reflexivity|]. split; [|exact H2]. destruct (s_load k (fst tc)); [discriminate | reflexivity].
      * intros [H|(_ & H)]; [left; left; exact H | left; right; split; [reflexivity | exact H]].
    + cbn [orb]. split.
      * intros [[H|(H & _)]|H]; [left; exact H | | right; exact H]. apply bytes_eqb_neq in E. contradiction.
      * intros [H|H]; [left; left; exact H | right; exact H].
Qed.

(* ---------------- first_lister / svc_index ---------------- *)
Lemma svc_index_some svc : forall ss i j, svc_index svc i ss = Some j ->
  (i <= j)%nat /\ exists s, nth_error ss (j - i) = Some s /\ s_name s = svc.
Proof.
  induction ss as [|s ss IH]; intros i j H; [discriminate|]. cbn [svc_index] in H.
  destruct (bytes_eqb (s_name s) svc) eqn:E.
  - injection H as <-. split; [lia|]. exists s. rewrite Nat.sub_diag. split; [reflexivity | apply bytes_eqb_eq; exact E].
  - destruct (IH _ _ H) as (Hj & s' & Hn & Hs). split; [lia|]. exists s'. split; [|exact Hs].
    replace (j - i)%nat with (S (j - S i)) by lia. exact Hn.
Qed.

Lemma svc_index_none svc : forall ss i, svc_index svc i ss = None <-> lists svc ss = false.
Proof.
  induction ss as [|s ss IH]; intros i; [split; reflexivity|]. unfold lists. cbn [svc_index existsb].
  destruct (bytes_eqb (s_name s) svc); cbn [orb]; [split; discriminate | apply IH].
Qed.

Lemma first_lister_some svc : forall cands m dm i, first_lister svc cands = Some (m, dm, i) ->
  In (m, dm) cands /\ svc_index svc 0 (d_services dm) = Some i.
Proof.
  induction cands as [|[n d] cands IH]; intros m dm i H; [discriminate|]. cbn [first_lister] in H.
  destruct (svc_index svc 0 (d_services d)) eqn:E.
  - injection H as <- <- <-. split; [left; reflexivity | exact E].
  - destruct (IH _ _ _ H) as [I S']. split; [right; exact I | exact S'].
Qed.

Lemma first_lister_none svc : forall cands, first_lister svc cands = None ->
  forall m dm, In (m, dm) cands -> lists svc (d_services dm) = false.
Proof.
  induction cands as [|[n d] cands IH]; intros H m dm I; [destruct I|]. cbn [first_lister] in H.
  destruct (svc_index svc 0 (d_services d)) eqn:E; [discriminate|].
  destruct I as [I|I]; [injection I as <- <-; eapply svc_index_none; exact E | eapply IH; eauto].
Qed.

Lemma In_sd_delete m dm n ds : In (m, dm) (sd_delete n ds) <-> In (m, dm) ds /\ m <> n.
Proof.
  unfold sd_delete. rewrite filter_In. cbn [fst]. split; intros [I H]; (split; [exact I|]).
  - apply negb_true_iff, bytes_eqb_neq in H. congruence.
  - apply negb_true_iff, bytes_eqb_neq. congruence.
Qed.

Lemma In_sd_insert x kv : forall l, In x (sd_insert kv l) <-> x = kv \/ In x l.
Proof.
  induction l as [|kv' l IH]; cbn [sd_insert].
  - simpl. split; intros [H|[]]; left; congruence.
  - destruct (bytes_leb (fst kv) (fst kv')); simpl.
    + split; intros [H|H]; auto.
    + rewrite IH. simpl. tauto.
Qed.

Lemma In_sd_set m dm n d ds : In (m, dm) (sd_set n d ds) <-> (m = n /\ dm = d) \/ (In (m, dm) ds /\ m <> n).
Proof.
  unfold sd_set. rewrite In_sd_insert, In_sd_delete. split; (intros [H|H]; [left | right; exact H]).
  - injection H as -> ->. auto.
  - destruct H as [-> ->]. reflexivity.
Qed.

(* ---------------- the invariant ---------------- *)
Definition tbl (st : sstate3) : stable := fst (fst st).
Definition clm (st : sstate3) : claims := snd (fst st).
Definition dsc (st : sstate3) : sdescs := snd st.

(* sound: every routed service points at a LIVE target, at its LATEST description, at a position where that
          description lists exactly this service;
   complete: every service listed by the latest description of some live target is routed;
   claims: the per-target claim lists are exactly the table's ownership relation;
   descs: the recorded listings are exactly the latest descriptions *)
Definition SInv (lt : latest) (st : sstate3) : Prop :=
  (forall k r, s_load k (tbl st) = Some r -> exists d s,
      lget (sr_target r) lt = Some d /\ sr_desc r = d_id d /\ nth_error (d_services d) (sr_idx r) = Some s /\ s_name s = k) /\
  (forall m dm k, lget m lt = Some dm -> lists k (d_services dm) = true -> s_load k (tbl st) <> None) /\
  (forall m k, In k (c_get m (clm st)) <-> owned m k (tbl st) = true) /\
  (forall m dm, In (m, dm) (dsc st) <-> lget m lt = Some dm).

Lemma SInv_init : SInv [] ([], [], []).
Proof.
  unfold SInv, tbl, clm, dsc, owned. cbn. split; [discriminate|]. split; [discriminate|].
  split; [split; [intros [] | discriminate] | split; [intros [] | discriminate]].
Qed.

Lemma nth_lists k ss j s : nth_error ss j = Some s -> s_name s = k -> lists k ss = true.
Proof.
  intros H E. unfold lists. apply existsb_exists. exists s. split; [eapply nth_error_In; eauto | subst; apply bytes_eqb_refl].
Qed.

(* ---------------- updateRoutes ---------------- *)
Section Update.
  Variables (n : bytes) (d : desc) (t : stable) (c : claims) (ds : sdescs).
  Hypothesis Hc : forall m k, In k (c_get m c) <-> owned m k t = true.

  Let r := claim_services n (d_id d) 0 (d_services d) t [].
  Let outdated := filter (fun s => negb (existsb (bytes_eqb s) (snd r))) (c_get n c).
  Let t2 := fold_left (fun t s => s_delete s t) outdated (fst r).
  Let ds' := sd_set n d ds.
  Let h := fold_left (ho_f n ds') outdated (t2, (n, snd r) :: c_delete n c).

  Lemma update_routes_eq : update_routes n d (t, c, ds) = (fst h, snd h, ds').
  Proof.
    unfold update_routes, h, t2, outdated, ds', r.
    destruct (claim_services n (d_id d) 0 (d_services d) t []) as [t1 claimed]. cbn [fst snd].
    rewrite hand_over_eq.
    destruct (fold_left (ho_f n (sd_set n d ds)) _ _) as [t3 c3]. reflexivity.
  Qed.

  Lemma claimed_spec k : In k (snd r) <-> lists k (d_services d) && free n k t = true.
  Proof.
    destruct (claim_spec n (d_id d) (d_services d) 0%nat t [] k) as (_ & _ & H). fold r in H.
    rewrite H. split; [intros [[]|H']; exact H' | auto].
  Qed.

  Lemma outdated_spec k : mem k outdated = owned n k t && negb (lists k (d_services d)).
  Proof.
    apply eq_true_iff_eq. rewrite mem_In. unfold outdated. rewrite filter_In, Hc, andb_true_iff, !negb_true_iff.
    split; intros [O H]; (split; [exact O|]).
    - destruct (lists k (d_services d)) eqn:L; [|reflexivity].
      assert (I : In k (snd r)) by (apply claimed_spec; rewrite L, (owned_free _ _ _ O); reflexivity).
      apply mem_In in I. unfold mem in I. congruence.
    - destruct (existsb (bytes_eqb k) (snd r)) eqn:M; [|reflexivity].
      apply mem_In, claimed_spec in M. rewrite H in M. discriminate.
  Qed.

  Lemma t2_load k : s_load k t2 = if mem k outdated then None else s_load k (fst r).
  Proof. unfold t2. apply s_load_fold_delete. Qed.

  Lemma t3_load k : s_load k (fst h) =
    if mem k outdated then ho_new n ds' k else s_load k (fst r).
  Proof.
    unfold h. rewrite ho_load. cbn [fst]. rewrite t2_load. destruct (mem k outdated); reflexivity.
  Qed.

  (* the earlier claimant keeps the service: routes of other targets are untouched by this target's update *)
  Lemma update_keeps k ro : s_load k t = Some ro -> sr_target ro <> n -> s_load k (fst h) = Some ro.
  Proof.
    intros L N. apply bytes_eqb_neq in N.
    assert (F : free n k t = false) by (unfold free; rewrite L; exact N).
    assert (O : owned n k t = false) by (unfold owned; rewrite L; exact N).
    rewrite t3_load, outdated_spec, O. cbn [andb].
    destruct (claim_spec n (d_id d) (d_services d) 0%nat t [] k) as (H & _ & _). fold r in H.
    rewrite H; [exact L | rewrite F; apply andb_false_r].
  Qed.

  Lemma update_claims k : free n k t = true -> lists k (d_services d) = true ->
    exists j s, s_load k (fst h) = Some (mk_sr n (d_id d) j) /\ nth_error (d_services d) j = Some s /\ s_name s = k.
  Proof.
    intros F L. rewrite t3_load, outdated_spec, L. rewrite andb_false_r.
    destruct (claim_spec n (d_id d) (d_services d) 0%nat t [] k) as (_ & H & _). fold r in H.
    destruct H as (j & s & H1 & _ & H2 & H3); [rewrite L, F; reflexivity|]. rewrite Nat.sub_0_r in H2. eauto.
  Qed.

  Lemma update_drops k : free n k t = true -> lists k (d_services d) = false ->
    s_load k (fst h) = if owned n k t then ho_new n ds' k else None.
  Proof.
    intros F L. rewrite t3_load, outdated_spec, L. cbn [negb]. rewrite andb_true_r.
    destruct (owned n k t) eqn:O; [reflexivity|].
    destruct (claim_spec n (d_id d) (d_services d) 0%nat t [] k) as (H & _ & _). fold r in H.
    rewrite H by (rewrite L; reflexivity).
    unfold free in F. unfold owned in O. destruct (s_load k t); [congruence | reflexivity].
  Qed.

  Lemma ho_new_not_self by_ dss k ro : ho_new by_ dss k = Some ro -> sr_target ro <> by_.
  Proof.
    unfold ho_new. destruct (first_lister k (sd_delete by_ dss)) as [[[m dm] i]|] eqn:FL; [|discriminate].
    intros H. injection H as <-. cbn. apply first_lister_some in FL as [I _]. apply In_sd_delete in I as [_ I]. exact I.
  Qed.

  Lemma fl_target by_ dss k m :
    (exists dm i, first_lister k (sd_delete by_ dss) = Some (m, dm, i)) <->
    match ho_new by_ dss k with Some ro => bytes_eqb (sr_target ro) m | None => false end = true.
  Proof.
    unfold ho_new. destruct (first_lister k (sd_delete by_ dss)) as [[[m' dm'] i']|]; cbn.
    - split; [intros (dm & i & H); injection H as -> _ _; apply bytes_eqb_refl|].
      intros H. apply bytes_eqb_eq in H. subst m'. eauto.
    - split; [intros (dm & i & H); discriminate | discriminate].
  Qed.

  Lemma update_claim_lists m k : In k (c_get m (snd h)) <-> owned m k (fst h) = true.
  Proof.
    unfold h at 1. rewrite ho_claims. cbn [fst snd c_get]. rewrite c_get_delete, t2_load, fl_target.
    assert (B : In k (if bytes_eqb m n then snd r else if bytes_eqb m n then [] else c_get m c) <->
                (if bytes_eqb m n then lists k (d_services d) && free n k t else owned m k t) = true).
    { destruct (bytes_eqb m n); [apply claimed_spec | apply Hc]. }
    rewrite B. clear B. rewrite outdated_spec.
    destruct (s_load k t) as [ro|] eqn:L.
    - destruct (bytes_eqb (sr_target ro) n) eqn:En.
      + (* currently owned by n *)
        assert (O : owned n k t = true) by (unfold owned; rewrite L; exact En).
        pose proof (owned_free _ _ _ O) as F. rewrite O, F.
        assert (Om : bytes_eqb m n = false -> owned m k t = false).
        { intros Em. unfold owned. rewrite L. apply bytes_eqb_eq in En. rewrite En, beq_sym. exact Em. }
        destruct (lists k (d_services d)) eqn:Ls; cbn [andb negb].
        * destruct (update_claims k F Ls) as (j & s & H3 & _). unfold owned at 2. rewrite H3. cbn [sr_target mk_sr].
          rewrite (beq_sym n m). destruct (bytes_eqb m n) eqn:Em.
          -- split; auto.
          -- rewrite (Om eq_refl). split; [intros [H|(H & _)]; discriminate | discriminate].
        * unfold owned at 2. rewrite (update_drops k F Ls), O.
          destruct (bytes_eqb m n) eqn:Em.
          -- apply bytes_eqb_eq in Em. subst m. split; [intros [H|(_ & _ & H)]; [discriminate | exact H] |].
             intros H. right. auto.
          -- rewrite (Om eq_refl). split; [intros [H|(_ & _ & H)]; [discriminate | exact H] |].
             intros H. right. auto.
      + (* owned by another target: untouched *)
        assert (N : sr_target ro <> n) by (apply bytes_eqb_neq; exact En).
        assert (O : owned n k t = false) by (unfold owned; rewrite L; exact En).
        assert (F : free n k t = false) by (unfold free; rewrite L; exact En).
        rewrite O, F, andb_false_r. cbn [andb]. unfold owned at 2. rewrite (update_keeps k ro L N).
        destruct (bytes_eqb m n) eqn:Em.
        * apply bytes_eqb_eq in Em. subst m. rewrite En. split; [intros [H|(H & _)]; discriminate | discriminate].
        * unfold owned. rewrite L. split; [intros [H|(H & _)]; [exact H | discriminate] | auto].
    - (* not routed at all *)
      assert (O : forall x, owned x k t = false) by (intros x; unfold owned; rewrite L; reflexivity).
      assert (F : free n k t = true) by (unfold free; rewrite L; reflexivity).
      rewrite !O, F, andb_true_r. cbn [andb].
      destruct (lists k (d_services d)) eqn:Ls.
      + destruct (update_claims k F Ls) as (j & s & H3 & _). unfold owned. rewrite H3. cbn [sr_target mk_sr].
        rewrite (beq_sym n m). destruct (bytes_eqb m n); split; auto; intros [H|(H & _)]; discriminate.
      + unfold owned at 1. rewrite (update_drops k F Ls), O.
        destruct (bytes_eqb m n); split; try discriminate; intros [H|(H & _)]; discriminate.
  Qed.
End Update.

Lemma SInv_update lt st n d : SInv lt st -> SInv (lset n d lt) (update_routes n d st).
Proof.
  destruct st as [[t c] ds]. intros (Snd & Cmp & Clm & Dsc). unfold tbl, clm, dsc in *. cbn [fst snd] in *.
  rewrite (update_routes_eq n d t c ds). cbn [fst snd].
  set (ds' := sd_set n d ds).
  set (h := fold_left (ho_f n ds') _ _).
  assert (Dsc' : forall m dm, In (m, dm) ds' <-> lget m (lset n d lt) = Some dm).
  { intros m dm. unfold ds'. rewrite In_sd_set, lget_lset, Dsc. destruct (bytes_eqb m n) eqn:E.
    - apply bytes_eqb_eq in E. subst m. split; [intros [[_ ->]|[_ H]]; [reflexivity | congruence] |].
      intros H. injection H as <-. left. auto.
    - apply bytes_eqb_neq in E. split; [intros [[H _]|[H _]]; [contradiction | exact H] | intros H; right; auto]. }
  unfold SInv, tbl, clm, dsc. cbn [fst snd]. split; [|split; [|split]].
  - (* sound *)
    intros k r0 L.
    destruct (s_load k t) as [ro|] eqn:Lo.
    + destruct (bytes_eqb (sr_target ro) n) eqn:En.
      * assert (O : owned n k t = true) by (unfold owned; rewrite Lo; exact En).
        pose proof (owned_free _ _ _ O) as F.
        destruct (lists k (d_services d)) eqn:Ls.
        -- destruct (update_claims n d t c ds Clm k F Ls) as (j & s & H3 & H4 & H5). fold ds' h in H3.
           rewrite H3 in L. injection L as <-. exists d, s. cbn [sr_target sr_desc sr_idx mk_sr]. rewrite lget_lset, bytes_eqb_refl. auto.
        -- pose proof (update_drops n d t c ds Clm k F Ls) as H3. fold ds' h in H3. rewrite H3, O in L.
           unfold ho_new in L. destruct (first_lister k (sd_delete n ds')) as [[[m dm] i]|] eqn:FL; [|discriminate].
           injection L as <-. cbn [sr_target sr_desc sr_idx mk_sr]. apply first_lister_some in FL as [I Si]. apply In_sd_delete in I as [I _].
           apply Dsc' in I. apply svc_index_some in Si as (_ & s & Hn & Hs). rewrite Nat.sub_0_r in Hn.
           exists dm, s. auto.
      * assert (N : sr_target ro <> n) by (apply bytes_eqb_neq; exact En).
        pose proof (update_keeps n d t c ds Clm k ro Lo N) as H3. fold ds' h in H3. rewrite H3 in L. injection L as <-.
        destruct (Snd k ro Lo) as (d0 & s & H1 & H2 & H4 & H5). exists d0, s. rewrite lget_lset, En. auto.
    + assert (F : free n k t = true) by (unfold free; rewrite Lo; reflexivity).
      destruct (lists k (d_services d)) eqn:Ls.
      * destruct (update_claims n d t c ds Clm k F Ls) as (j & s & H3 & H4 & H5). fold ds' h in H3.
        rewrite H3 in L. injection L as <-. exists d, s. cbn [sr_target sr_desc sr_idx mk_sr]. rewrite lget_lset, bytes_eqb_refl. auto.
      * pose proof (update_drops n d t c ds Clm k F Ls) as H3. fold ds' h in H3. rewrite H3 in L.
        unfold owned in L. rewrite Lo in L. discriminate.
  - (* complete *)
    intros m dm k Lm Ls.
    destruct (free n k t) eqn:F.
    + destruct (lists k (d_services d)) eqn:Ld.
      * destruct (update_claims n d t c ds Clm k F Ld) as (j & s & H3 & _). fold ds' h in H3. rewrite H3. discriminate.
      * pose proof (update_drops n d t c ds Clm k F Ld) as H3. fold ds' h in H3. rewrite H3.
        rewrite lget_lset in Lm. destruct (bytes_eqb m n) eqn:Em; [injection Lm as <-; congruence|].
        destruct (owned n k t) eqn:O.
        -- unfold ho_new. destruct (first_lister k (sd_delete n ds')) as [[[m' dm'] i']|] eqn:FL; [discriminate|].
           exfalso. pose proof (first_lister_none _ _ FL m dm) as H. rewrite H in Ls; [discriminate|].
           apply In_sd_delete. split; [|apply bytes_eqb_neq; exact Em]. apply Dsc'. rewrite lget_lset, Em. exact Lm.
        -- exfalso. apply (Cmp m dm k Lm Ls). unfold free in F. unfold owned in O. destruct (s_load k t); [congruence | reflexivity].
    + unfold free in F. destruct (s_load k t) as [ro|] eqn:Lo; [|discriminate].
      assert (N : sr_target ro <> n) by (apply bytes_eqb_neq; exact F).
      pose proof (update_keeps n d t c ds Clm k ro Lo N) as H3. fold ds' h in H3. rewrite H3. discriminate.
  - intros m k. apply (update_claim_lists n d t c ds Clm).
  - exact Dsc'.
Qed.

(* ---------------- removal of a target (watcher Close) ---------------- *)
Section Remove.
  Variables (n : bytes) (t : stable) (c : claims) (ds : sdescs).
  Hypothesis Hc : forall m k, In k (c_get m c) <-> owned m k t = true.

  Let released := c_get n c.
  Let t2 := fold_left (fun t s => s_delete s t) released t.
  Let ds' := sd_delete n ds.
  Let h := fold_left (ho_f n ds') released (t2, c_delete n c).

  Lemma remove_starget_eq : remove_starget n (t, c, ds) = (fst h, snd h, ds').
  Proof.
    unfold remove_starget, h, t2, ds', released. rewrite hand_over_eq.
    destruct (fold_left (ho_f n (sd_delete n ds)) _ _) as [t3 c3]. reflexivity.
  Qed.

  Lemma released_spec k : mem k released = owned n k t.
  Proof. apply eq_true_iff_eq. rewrite mem_In. apply Hc. Qed.

  Lemma remove_load k : s_load k (fst h) = if owned n k t then ho_new n ds' k else s_load k t.
  Proof.
    unfold h. rewrite ho_load. cbn [fst]. unfold t2. rewrite s_load_fold_delete, released_spec.
    destruct (owned n k t); reflexivity.
  Qed.

  Lemma remove_claim_lists m k : In k (c_get m (snd h)) <-> owned m k (fst h) = true.
  Proof.
    unfold h at 1. rewrite ho_claims. cbn [fst snd]. rewrite c_get_delete, fl_target, released_spec.
    unfold t2. rewrite s_load_fold_delete, released_spec. unfold owned at 3. rewrite remove_load.
    destruct (owned n k t) eqn:O.
    - assert (Om : bytes_eqb m n = false -> owned m k t = false).
      { intros Em. unfold owned in *. destruct (s_load k t) as [ro|]; [|reflexivity].
        apply bytes_eqb_eq in O. rewrite O, beq_sym. exact Em. }
      destruct (bytes_eqb m n) eqn:Em.
      + split; [intros [[]|(_ & _ & H)]; exact H | intros H; right; auto].
      + split; [intros [H|(_ & _ & H)]; [apply Hc in H; rewrite (Om eq_refl) in H; discriminate | exact H] | intros H; right; auto].
    - destruct (bytes_eqb m n) eqn:Em.
      + apply bytes_eqb_eq in Em. subst m. fold (owned n k t). rewrite O.
        split; [intros [[]|(H & _)]; discriminate | discriminate].
      + fold (owned m k t). rewrite Hc. split; [intros [H|(H & _)]; [exact H | discriminate] | auto].
  Qed.
End Remove.

Lemma SInv_remove lt st n : SInv lt st -> SInv (ldel n lt) (remove_starget n st).
Proof.
  destruct st as [[t c] ds]. intros (Snd & Cmp & Clm & Dsc). unfold tbl, clm, dsc in *. cbn [fst snd] in *.
  rewrite (remove_starget_eq n t c ds). cbn [fst snd].
  set (ds' := sd_delete n ds).
  set (h := fold_left (ho_f n ds') _ _).
  assert (Dsc' : forall m dm, In (m, dm) ds' <-> lget m (ldel n lt) = Some dm).
  { intros m dm. unfold ds'. rewrite In_sd_delete, lget_ldel, Dsc. destruct (bytes_eqb m n) eqn:E.
    - apply bytes_eqb_eq in E. split; [intros [_ H]; contradiction | discriminate].
    - apply bytes_eqb_neq in E. split; [intros [H _]; exact H | auto]. }
  unfold SInv, tbl, clm, dsc. cbn [fst snd]. split; [|split; [|split]].
  - intros k r0 L. pose proof (remove_load n t c ds Clm k) as H3. fold ds' h in H3. rewrite H3 in L.
    destruct (owned n k t) eqn:O.
    + unfold ho_new in L. destruct (first_lister k (sd_delete n ds')) as [[[m dm] i]|] eqn:FL; [|discriminate].
      injection L as <-. cbn [sr_target sr_desc sr_idx mk_sr]. apply first_lister_some in FL as [I Si]. apply In_sd_delete in I as [I _].
      apply Dsc' in I. apply svc_index_some in Si as (_ & s & Hn & Hs). rewrite Nat.sub_0_r in Hn. exists dm, s. auto.
    + destruct (Snd k r0 L) as (d0 & s & H1 & H2 & H4 & H5). exists d0, s. rewrite lget_ldel.
      unfold owned in O. rewrite L in O. rewrite O. auto.
  - intros m dm k Lm Ls. pose proof (remove_load n t c ds Clm k) as H3. fold ds' h in H3. rewrite H3.
    rewrite lget_ldel in Lm. destruct (bytes_eqb m n) eqn:Em; [discriminate|].
    destruct (owned n k t) eqn:O; [|exact (Cmp m dm k Lm Ls)].
    unfold ho_new. destruct (first_lister k (sd_delete n ds')) as [[[m' dm'] i']|] eqn:FL; [discriminate|].
    exfalso. pose proof (first_lister_none _ _ FL m dm) as H. rewrite H in Ls; [discriminate|].
    apply In_sd_delete. split; [|apply bytes_eqb_neq; exact Em]. apply Dsc'. rewrite lget_ldel, Em. exact Lm.
  - intros m k. apply (remove_claim_lists n t c ds Clm).
  - exact Dsc'.
Qed.

(* ---------------- histories ---------------- *)
Section Hist.
  Variable valid : bytes -> bool.

  Lemma shist_gen : forall ops s wl,
    st_watch s = fst wl -> SInv (snd wl) (st_st s) ->
    st_watch (fold_left (fun s o => fst (step valid s o)) ops s) = fst (fold_left spec_latest ops wl) /\
    SInv (snd (fold_left spec_latest ops wl)) (st_st (fold_left (fun s o => fst (step valid s o)) ops s)).
  Proof.
    induction ops as [|o ops IH]; intros s [w lt] W P; cbn [fold_left]; [auto|].
    apply IH.
    - destruct o as [n|n d|n]; cbn [step spec_latest]; unfold watched; cbn [fst snd] in W; rewrite W;
        destruct (existsb (bytes_eqb n) w); cbn; congruence.
    - destruct o as [n|n d|n]; cbn [step spec_latest]; unfold watched; cbn [fst snd] in W; rewrite W;
        destruct (existsb (bytes_eqb n) w); cbn [fst snd st_st]; auto.
      + apply SInv_update; exact P.
      + apply SInv_remove; exact P.
  Qed.

  Theorem service_inv ops : SInv (snd (run_spec ops)) (st_st (run_ops valid ops)).
  Proof. apply (shist_gen ops init_state ([], [])); [reflexivity | apply SInv_init]. Qed.

  (* C06, service router: after ANY history a routed service points at a live target's LATEST description, at a
     position where that description lists the service *)
  Theorem service_sound ops svc r : probe_grpc (run_ops valid ops) svc = Some r ->
    exists d s, lget (sr_target r) (snd (run_spec ops)) = Some d /\ sr_desc r = d_id d /\
                nth_error (d_services d) (sr_idx r) = Some s /\ s_name s = svc.
  Proof. destruct (service_inv ops) as (S & _). apply S. Qed.

  (* ... every service listed by the latest description of some live target is routed *)
  Theorem service_complete ops m dm svc : lget m (snd (run_spec ops)) = Some dm -> lists_svc dm svc = true ->
    probe_grpc (run_ops valid ops) svc <> None.
  Proof. destruct (service_inv ops) as (_ & C & _). apply C. Qed.

  (* ... a service listed by exactly one live target is routed to it, with its latest description *)
  Theorem service_sole ops n d svc : lget n (snd (run_spec ops)) = Some d -> lists_svc d svc = true ->
    (forall n' d', n' <> n -> lget n' (snd (run_spec ops)) = Some d' -> lists_svc d' svc = false) ->
    exists r s, probe_grpc (run_ops valid ops) svc = Some r /\ sr_target r = n /\ sr_desc r = d_id d /\
                nth_error (d_services d) (sr_idx r) = Some s /\ s_name s = svc.
  Proof.
    intros L Ls U. destruct (probe_grpc (run_ops valid ops) svc) as [r|] eqn:P.
    - destruct (service_sound ops svc r P) as (d0 & s & H1 & H2 & H3 & H4).
      destruct (bytes_eqb (sr_target r) n) eqn:E.
      + apply bytes_eqb_eq in E. rewrite E in H1. assert (d0 = d) by congruence. subst d0. exists r, s. auto.
      + apply bytes_eqb_neq in E. pose proof (U _ _ E H1) as H. pose proof (nth_lists _ _ _ _ H3 H4) as H'.
        unfold lists_svc in H. unfold lists in H'. congruence.
    - exfalso. exact (service_complete ops n d svc L Ls P).
  Qed.

  (* ... a service no live target lists is not routed *)
  Theorem service_none ops svc : (forall n d, lget n (snd (run_spec ops)) = Some d -> lists_svc d svc = false) ->
    probe_grpc (run_ops valid ops) svc = None.
  Proof.
    intros U. destruct (probe_grpc (run_ops valid ops) svc) as [r|] eqn:P; [|reflexivity].
    destruct (service_sound ops svc r P) as (d0 & s & H1 & H2 & H3 & H4).
    pose proof (U _ _ H1) as H. pose proof (nth_lists _ _ _ _ H3 H4) as H'. unfold lists_svc in H. unfold lists in H'. congruence.
  Qed.

  (* C14: the earlier claimant keeps the service - no operation of ANOTHER target changes the route *)
  Definition touches (o : op) (n : bytes) : Prop :=
    match o with OWatch _ => False | OUpdate m _ | OClose m => m = n end.

  Theorem earlier_claimant_keeps ops o svc r : probe_grpc (run_ops valid ops) svc = Some r ->
    ~ touches o (sr_target r) -> probe_grpc (fst (step valid (run_ops valid ops) o)) svc = Some r.
  Proof.
    intros P T. destruct (service_inv ops) as (_ & _ & Clm & _). unfold probe_grpc in *.
    destruct (st_st (run_ops valid ops)) as [[t c] ds] eqn:St. unfold tbl, clm in *. cbn [fst snd] in *.
    destruct o as [n|n d|n]; cbn [step touches] in *; destruct (watched n (run_ops valid ops)); cbn [fst st_st]; rewrite ?St; cbn [fst]; try exact P.
    - rewrite (update_routes_eq n d t c ds). cbn [fst]. apply (update_keeps n d t c ds Clm); [exact P | congruence].
    - rewrite (remove_starget_eq n t c ds). cbn [fst]. rewrite (remove_load n t c ds Clm).
      unfold owned. rewrite P. destruct (bytes_eqb (sr_target r) n) eqn:E; [apply bytes_eqb_eq in E; congruence | reflexivity].
  Qed.

  (* ... and the owner keeps it across its own updates for as long as it lists the service; the route is refreshed to the
     new description *)
  Theorem owner_relists ops n d svc r : probe_grpc (run_ops valid ops) svc = Some r -> sr_target r = n ->
    lists_svc d svc = true -> snd (step valid (run_ops valid ops) (OUpdate n d)) = 1%Z ->
    exists r' s, probe_grpc (fst (step valid (run_ops valid ops) (OUpdate n d))) svc = Some r' /\
                 sr_target r' = n /\ sr_desc r' = d_id d /\ nth_error (d_services d) (sr_idx r') = Some s /\ s_name s = svc.
  Proof.
    intros P T Ls A. destruct (service_inv ops) as (_ & _ & Clm & _). unfold probe_grpc in *.
    destruct (st_st (run_ops valid ops)) as [[t c] ds] eqn:St. unfold tbl, clm in *. cbn [fst snd] in *.
    cbn [step] in *. destruct (watched n (run_ops valid ops)); [|discriminate]. cbn [fst st_st]. rewrite St.
    rewrite (update_routes_eq n d t c ds). cbn [fst].
    assert (F : free n svc t = true) by (unfold free; rewrite P, T; apply bytes_eqb_refl).
    destruct (update_claims n d t c ds Clm svc F Ls) as (j & s & H1 & H2 & H3).
    exists (mk_sr n (d_id d) j), s. auto.
  Qed.

End Hist.

(* the premises of the theorems above are met by concrete histories: two targets claim the same service; the earlier
   claimant is routed; when it goes away the service is handed to the other one, with that one's latest description *)
Definition ex_a : bytes := [97]%N.
Definition ex_b : bytes := [98]%N.
Definition ex_svc : bytes := [115]%N.
Definition ex_desc (id : Z) : desc := {| d_id := id; d_services := [{| s_name := ex_svc; s_methods := [] |}] |}.
Definition ex_ops : list op := [OWatch ex_a; OWatch ex_b; OUpdate ex_a (ex_desc 1); OUpdate ex_b (ex_desc 2)].
Example two_claimants :
  probe_grpc (run_ops lit_valid ex_ops) ex_svc = Some (mk_sr ex_a 1 0) /\
  probe_grpc (run_ops lit_valid (ex_ops ++ [OUpdate ex_b (ex_desc 3)])) ex_svc = Some (mk_sr ex_a 1 0) /\
  probe_grpc (run_ops lit_valid (ex_ops ++ [OClose ex_a])) ex_svc = Some (mk_sr ex_b 2 0) /\
  probe_grpc (run_ops lit_valid (ex_ops ++ [OClose ex_a; OClose ex_b])) ex_svc = None.
Proof. vm_compute. auto. Qed.
