(* C17 proofs: what the decoding models of C03, C04, C08 say about arbitrary client input: every outcome is a value of a
   small error alphabet (the models are total functions; a Go panic has no counterpart in them, which is why the fuzz
   stream of harness/c17 is the tie for "no panic"), and client mistakes map to 4xx *)
From Coq Require Import Lia ZArith List Bool.
From GB Require Import Model.Transcode Model.HttpErr Model.Template Model.TemplateRun Model.GrpcWeb
                       Proofs.TranscodeProofs Proofs.TemplateProofs Proofs.GrpcWebProofs.
Import ListNotations.
Open Scope Z_scope.

(* a request whose body, path variables or query parameters do not parse is answered 400 when the binding itself is valid *)
Theorem bad_request_is_400 sc bp params q body c :
  transcode sc bp params q body = Fail c ->
  (bp = [] \/ bp = s_star \/ traverse (length (split_dot bp)) sc O (split_dot bp) <> None) ->
  http_of_code c = 400.
Proof.
  intros T V. destruct (transcode_codes _ _ _ _ _ _ T) as [->|(-> & N1 & N2 & N3)]; [reflexivity|].
  destruct V as [V|[V|V]]; contradiction.
Qed.

(* routing: whatever the path, the outcome is a route, NotFound (404) or InvalidArgument for a malformed escape (400) *)
Lemma first_route_codes abort : forall routes comps c, first_route abort routes comps = VL [VN c] -> c = 5 \/ c = 3.
Proof.
  induction routes as [|[[[ti bi] ops] verb] routes IH]; intros comps c H; cbn [first_route] in H.
  - injection H as <-. left; reflexivity.
  - unfold route_step in H.
    destruct ((match verb with [] => false | _ => ends_with (last comps []) (c_colon :: verb) end) && _).
    + destruct abort; [injection H as <-; left; reflexivity|exact (IH _ _ H)].
    + destruct (if match verb with [] => false | _ => ends_with (last comps []) (c_colon :: verb) end then _ else _) as [mc v].
      destruct (match_pattern ops verb mc v); try discriminate; [exact (IH _ _ H)|injection H as <-; right; reflexivity].
Qed.
Theorem routing_errors_are_4xx abort routes comps c :
  first_route abort routes comps = VL [VN c] -> http_of_code c = 404 \/ http_of_code c = 400.
Proof. intros H. destruct (first_route_codes _ _ _ _ H) as [->| ->]; [left|right]; reflexivity. Qed.
