From GB Require Import Model.MDFilter Model.Dispatch Proofs.MDFilterProofs.
From Coq Require Import Lia.
Open Scope N_scope.

(* ---- strings.Split correctness ---- *)
Lemma split_nonempty sep s : split_on sep s <> [].
Proof. destruct s as [|c r]; simpl; [discriminate|]. destruct (c =? sep); [discriminate|]. destruct (split_on sep r); discriminate. Qed.

Lemma split_no_sep t : no_comma t -> split_on 44 t = [t].
Proof.
  induction t as [|c t IH]; intros H; [reflexivity|]. simpl.
  destruct (N.eqb_spec c 44) as [->|N]; [exfalso; apply H; left; reflexivity|].
  rewrite IH; [reflexivity|]. intros I; apply H; right; exact I.
Qed.

Lemma split_app_sep t s : no_comma t -> split_on 44 (t ++ 44 :: s) = t :: split_on 44 s.
Proof.
  induction t as [|c t IH]; intros H; simpl.
  - reflexivity.
  - destruct (N.eqb_spec c 44) as [->|N]; [exfalso; apply H; left; reflexivity|].
    rewrite IH; [reflexivity|]. intros I; apply H; right; exact I.
Qed.

Lemma split_join ts : ts <> [] -> Forall no_comma ts -> split_on 44 (join_comma ts) = ts.
Proof.
  induction ts as [|t ts IH]; intros NE F; [congruence|].
  inversion F as [|? ? Ht Fts]; subst.
  destruct ts as [|t' r].
  - simpl. apply split_no_sep; exact Ht.
  - change (join_comma (t :: t' :: r)) with (t ++ 44 :: join_comma (t' :: r)).
    rewrite split_app_sep by exact Ht. f_equal. apply IH; [discriminate | exact Fts].
Qed.

Lemma split_parts_no_comma s : Forall no_comma (split_on 44 s).
Proof.
  induction s as [|c r IH]; simpl.
  - constructor; [intros []|constructor].
  - destruct (N.eqb_spec c 44) as [->|N].
    + constructor; [intros []|exact IH].
    + destruct (split_on 44 r) as [|t ts]; [constructor; [intros [E|[]]; congruence | constructor]|].
      inversion IH; subst. constructor; [|assumption].
      intros [E|I]; [congruence | contradiction].
Qed.

Lemma join_split s : join_comma (split_on 44 s) = s.
Proof.
  induction s as [|c r IH]; [reflexivity|]. simpl.
  destruct (N.eqb_spec c 44) as [->|N].
  - pose proof (split_nonempty 44 r). destruct (split_on 44 r) as [|t ts]; [congruence|].
    simpl in *. rewrite IH. reflexivity.
  - pose proof (split_nonempty 44 r). destruct (split_on 44 r) as [|t ts]; [congruence|].
    destruct ts; simpl in *; rewrite <- IH; reflexivity.
Qed.

Lemma has_token_gen (eq : bytes -> bytes -> bool) tok values :
  existsb (fun v => existsb (fun t => eq (trim_ows t) tok) (split_on 44 v)) values = true <->
  lists_token eq tok values.
Proof.
  split.
  - intros H. apply existsb_exists in H as (v & Iv & H). apply existsb_exists in H as (t & It & E).
    exists v, (split_on 44 v), t. repeat split; auto.
    + symmetry; apply join_split. + apply split_nonempty. + apply split_parts_no_comma.
  - intros (v & ts & t & Iv & -> & NE & F & It & E).
    apply existsb_exists. exists (join_comma ts). split; [exact Iv|].
    rewrite split_join by assumption. apply existsb_exists. exists t. split; assumption.
Qed.

Lemma has_token_spec tok values : has_token tok values = true <-> lists_token fold_eqb tok values.
Proof. apply has_token_gen. Qed.
Lemma has_exact_token_spec tok values : has_exact_token tok values = true <-> lists_token bytes_eqb tok values.
Proof. apply has_token_gen. Qed.

Ltac resolve_iff A :=
  match type of A with
  | true = true <-> ?P => let H := fresh "Hyes" in assert (H : P) by (apply A; reflexivity); clear A
  | false = true <-> ?P => let H := fresh "Hno" in assert (H : ~ P) by (let X := fresh in intros X; apply A in X; discriminate X); clear A
  end.

Theorem dispatch_is_spec hs h : dispatch hs = h <-> dispatch_spec hs h.
Proof.
  unfold dispatch, dispatch_spec.
  pose proof (has_token_spec s_upgrade (hvalues s_connection hs)) as A.
  pose proof (has_token_spec s_websocket (hvalues s_upgrade_h hs)) as B.
  pose proof (has_exact_token_spec s_grpc_ws (hvalues s_swp hs)) as C.
  destruct (has_token s_upgrade (hvalues s_connection hs));
  destruct (has_token s_websocket (hvalues s_upgrade_h hs)); cbn [andb];
  destruct (has_exact_token s_grpc_ws (hvalues s_swp hs));
  destruct (prefix_b s_grpc_web (media_type (hget s_content_type hs)));
  resolve_iff A; resolve_iff B; resolve_iff C;
  destruct h; split; intros H; try discriminate; try reflexivity; try tauto;
  try (exfalso; tauto); try (destruct H as [H1 H2]; try discriminate; tauto).
Qed.

Theorem dispatch_old_refuted : exists hs h, dispatch_spec hs h /\ dispatch_old hs <> h.
Proof.
  exists [(s_connection, [107;101;101;112;45;97;108;105;118;101;44;32;85;112;103;114;97;100;101]); (s_upgrade_h, s_websocket)], HWS.
  split; [apply dispatch_is_spec; vm_compute; reflexivity | vm_compute; discriminate].
Qed.

(* ---- character classes (all bytes, in fact all N) ---- *)
Theorem key_char_class c : valid_md_key_char c = true <->
  (48 <= c <= 57 \/ 97 <= c <= 122 \/ 65 <= c <= 90 \/ c = 95 \/ c = 45 \/ c = 46).
Proof.
  unfold valid_md_key_char, is_lower, is_upper, is_digit.
  rewrite !orb_true_iff, !andb_true_iff, !N.leb_le, !N.eqb_eq. lia.
Qed.

Theorem value_char_class v : valid_md_value v = true <-> Forall (fun c => 32 <= c <= 126) v.
Proof.
  unfold valid_md_value. rewrite forallb_forall, Forall_forall.
  split; intros H c I; specialize (H c I); rewrite andb_true_iff, !N.leb_le in *; lia.
Qed.

(* ---- metadata extraction from the query ---- *)
Section MDQuery.
  Variable param : bytes.

  Definition from_query (q : qvalues) (k v : bytes) : Prop :=
    exists qk vs, In (qk, vs) q /\ In v vs /\ is_md_entry param qk = true /\
                  valid_query_key (md_entry_key param qk) = true /\ valid_md_value v = true /\
                  k = lower (md_entry_key param qk).

  Definition qinv (q : qvalues) (m : md) : Prop :=
    forall k v, In v (md_lookup k m) -> from_query q k v.

  Lemma lookup_append k v m k' :
    md_lookup k' (md_append k v m) = if bytes_eqb k' (lower k) then md_lookup (lower k) m ++ [v] else md_lookup k' m.
  Proof.
    unfold md_append. simpl. destruct (bytes_eqb k' (lower k)) eqn:E; [reflexivity|].
    apply lookup_del_other. apply bytes_eqb_neq in E. congruence.
  Qed.

  Lemma inner_fold qk : forall vs done q m,
    In (qk, done ++ vs) q -> is_md_entry param qk = true -> valid_query_key (md_entry_key param qk) = true ->
    qinv q m ->
    qinv q (fold_left (fun m v => if valid_md_value v then md_append (md_entry_key param qk) v m else m) vs m).
  Proof.
    induction vs as [|v vs IH]; intros done q m I E V Inv; simpl; [exact Inv|].
    apply (IH (done ++ [v])); auto.
    - rewrite <- app_assoc. exact I.
    - destruct (valid_md_value v) eqn:VV; [|exact Inv].
      intros k x L. rewrite lookup_append in L.
      destruct (bytes_eqb k (lower (md_entry_key param qk))) eqn:EK.
      + apply bytes_eqb_eq in EK. subst k. apply in_app_or in L as [L|[<-|[]]].
        * apply Inv; exact L.
        * exists qk, (done ++ v :: vs). repeat split; auto. apply in_or_app; right; left; reflexivity.
      + apply Inv; exact L.
  Qed.

  Lemma qinv_mono q q' m : (forall e, In e q -> In e q') -> qinv q m -> qinv q' m.
  Proof.
    intros S Inv k v L. destruct (Inv k v L) as (qk & vs & I & R). exists qk, vs. split; [apply S; exact I | exact R].
  Qed.

  Lemma outer_fold : forall q done m, qinv (done ++ q) m ->
    qinv (done ++ q) (fold_left (fun m kv =>
      if is_md_entry param (fst kv) && valid_query_key (md_entry_key param (fst kv))
      then fold_left (fun m v => if valid_md_value v then md_append (md_entry_key param (fst kv)) v m else m) (snd kv) m
      else m) q m).
  Proof.
    induction q as [|[qk vs] q IH]; intros done m Inv; simpl; [exact Inv|].
    replace (done ++ (qk, vs) :: q) with ((done ++ [(qk, vs)]) ++ q) in * by (rewrite <- app_assoc; reflexivity).
    apply IH.
    destruct (is_md_entry param qk) eqn:E; cbn [andb]; [|exact Inv].
    destruct (valid_query_key (md_entry_key param qk)) eqn:V; [|exact Inv].
    apply (inner_fold qk vs []); auto.
    apply in_or_app; left; apply in_or_app; right; left; reflexivity.
  Qed.

  Theorem query_md_entries q k v : In v (md_lookup k (query_md param q)) -> from_query q k v.
  Proof.
    unfold query_md. apply (outer_fold q [] []). intros k' v' []. 
  Qed.

  Theorem query_rest_exact q kv :
    In kv (query_rest param q) <-> In kv q /\ is_md_entry param (fst kv) = false.
  Proof.
    unfold query_rest. rewrite filter_In. rewrite negb_true_iff. tauto.
  Qed.
End MDQuery.

Example dispatch_examples :
  dispatch [(s_connection, s_upgrade); (s_upgrade_h, s_websocket); (s_swp, [97;44;32] ++ s_grpc_ws)] = HGrpcWS /\
  dispatch [(s_content_type, [65] ++ skipn 1 s_grpc_web ++ [43;112;114;111;116;111;59;32;120])] = HGrpcWeb /\
  dispatch [] = HHTTP.
Proof. vm_compute. auto. Qed.
