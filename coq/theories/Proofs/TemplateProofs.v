(* C20 / C03 proofs: templates, the opcode machine, routing *)
From Coq Require Import Lia ZArith NArith List Bool ZifyBool ZifyN ZifyNat.
From GB Require Import Model.Template Model.TemplateRun Proofs.MDFilterProofs.
Import ListNotations.
Open Scope N_scope.

(* ---------- the stack machine computes the specification matcher ---------- *)
Definition flat (s : seg) : bool := match s with SVar _ _ => false | _ => true end.

(* inner segments (no variables): the machine pushes one value per segment, in order *)
Lemma run_inner : forall inner rest tl comps stack vars,
  forallb flat inner = true ->
  run_ops (flat_map compile_seg inner ++ rest) tl comps stack vars =
  match match_inner inner tl comps [] with
  | None => NotMatch
  | Some None => Malformed
  | Some (Some (vals, comps')) => run_ops rest tl comps' (rev vals ++ stack) vars
  end.
Proof.
  assert (G : forall inner rest tl comps stack vars acc, forallb flat inner = true ->
    match match_inner inner tl comps acc with
    | None => run_ops (flat_map compile_seg inner ++ rest) tl comps stack vars = NotMatch
    | Some None => run_ops (flat_map compile_seg inner ++ rest) tl comps stack vars = Malformed
    | Some (Some (vals, comps')) => exists more, vals = acc ++ more /\
        run_ops (flat_map compile_seg inner ++ rest) tl comps stack vars = run_ops rest tl comps' (rev more ++ stack) vars
    end).
  { induction inner as [|s inner IH]; intros rest tl comps stack vars acc F.
    - cbn [match_inner flat_map app]. exists []. rewrite app_nil_r. split; reflexivity.
    - cbn [forallb] in F. apply andb_true_iff in F. destruct F as [Fs F]. destruct s; try discriminate; cbn [match_inner flat_map compile_seg app run_ops].
      + destruct comps as [|c cs]; [reflexivity|]. destruct (unescape false c) as [u|]; [|reflexivity].
        specialize (IH rest tl cs (u :: stack) vars (acc ++ [u]) F).
        destruct (match_inner inner tl cs (acc ++ [u])) as [[[vals comps']|]|]; try exact IH.
        destruct IH as (more & -> & E). exists (u :: more). rewrite <- app_assoc. split; [reflexivity|]. rewrite E. cbn [rev]. rewrite <- app_assoc. reflexivity.
      + destruct (Nat.ltb (length comps) tl); [reflexivity|].
        destruct (unescape true _) as [u|]; [|reflexivity].
        specialize (IH rest tl (skipn (length comps - tl) comps) (u :: stack) vars (acc ++ [u]) F).
        destruct (match_inner inner tl _ (acc ++ [u])) as [[[vals comps']|]|]; try exact IH.
        destruct IH as (more & -> & E). exists (u :: more). rewrite <- app_assoc. split; [reflexivity|]. rewrite E. cbn [rev]. rewrite <- app_assoc. reflexivity.
      + destruct comps as [|c cs]; [reflexivity|]. destruct (bytes_eqb c s); [|reflexivity].
        specialize (IH rest tl cs (c :: stack) vars (acc ++ [c]) F).
        destruct (match_inner inner tl cs (acc ++ [c])) as [[[vals comps']|]|]; try exact IH.
        destruct IH as (more & -> & E). exists (c :: more). rewrite <- app_assoc. split; [reflexivity|]. rewrite E. cbn [rev]. rewrite <- app_assoc. reflexivity. }
  intros inner rest tl comps stack vars F. specialize (G inner rest tl comps stack vars [] F).
  destruct (match_inner inner tl comps []) as [[[vals comps']|]|]; try exact G.
  destruct G as (more & -> & E). exact E.
Qed.

Lemma match_inner_count : forall inner tl comps acc vals rest, match_inner inner tl comps acc = Some (Some (vals, rest)) ->
  length vals = (length acc + length inner)%nat.
Proof.
  induction inner as [|s inner IH]; intros tl comps acc vals rest H; cbn [match_inner] in H.
  - injection H as <- _. cbn. lia.
  - destruct s; try discriminate.
    + destruct comps as [|c cs]; [discriminate|]. destruct (unescape false c); [|discriminate]. apply IH in H. rewrite app_length in H. cbn in *. lia.
    + destruct (Nat.ltb _ _); [discriminate|]. destruct (unescape true _); [|discriminate]. apply IH in H. rewrite app_length in H. cbn in *. lia.
    + destruct comps as [|c cs]; [discriminate|]. destruct (bytes_eqb c s); [|discriminate]. apply IH in H. rewrite app_length in H. cbn in *. lia.
Qed.

Definition seg_ok (s : seg) : bool := match s with SVar _ inner => forallb flat inner | _ => true end.

Lemma compile_correct_stack : forall segs tl comps stack vars, forallb seg_ok segs = true ->
  run_ops (flat_map compile_seg segs) tl comps stack vars = match_segs segs tl comps vars.
Proof.
  induction segs as [|s segs IH]; intros tl comps stack vars F; [reflexivity|].
  cbn [forallb] in F. apply andb_true_iff in F. destruct F as [Fs F].
  assert (FLAT : forall x, flat x = true -> compile_seg x = flat_map compile_seg [x]) by (intros x _; cbn [flat_map]; rewrite app_nil_r; reflexivity).
  destruct s as [| |l|path inner]; cbn [flat_map match_segs].
  - rewrite (FLAT SWild eq_refl), (run_inner [SWild] _ tl comps stack vars eq_refl).
    destruct (match_inner [SWild] tl comps []) as [[[vals rest]|]|]; try reflexivity. apply IH; exact F.
  - rewrite (FLAT SDeep eq_refl), (run_inner [SDeep] _ tl comps stack vars eq_refl).
    destruct (match_inner [SDeep] tl comps []) as [[[vals rest]|]|]; try reflexivity. apply IH; exact F.
  - rewrite (FLAT (SLit l) eq_refl), (run_inner [SLit l] _ tl comps stack vars eq_refl).
    destruct (match_inner [SLit l] tl comps []) as [[[vals rest]|]|]; try reflexivity. apply IH; exact F.
  - cbn [compile_seg seg_ok] in *. rewrite <- !app_assoc. rewrite (run_inner inner _ tl comps stack vars Fs).
    destruct (match_inner inner tl comps []) as [[[vals rest]|]|] eqn:M; try reflexivity.
    pose proof (match_inner_count _ _ _ _ _ _ M) as L. cbn [length Nat.add] in L.
    cbn [app run_ops].
    replace (firstn (length inner) (rev vals ++ stack)) with (rev vals).
    2:{ rewrite firstn_app. rewrite rev_length, L, Nat.sub_diag. cbn [firstn]. rewrite app_nil_r. rewrite <- L, <- rev_length. symmetry. apply firstn_all. }
    replace (skipn (length inner) (rev vals ++ stack)) with stack.
    2:{ rewrite skipn_app. rewrite rev_length, L, Nat.sub_diag. cbn [skipn]. rewrite <- L, <- rev_length, skipn_all. reflexivity. }
    rewrite rev_involutive. apply IH; exact F.
Qed.

(* the opcode machine of a compiled template computes exactly the matching of the template itself *)
Theorem compile_correct : forall t tl comps, forallb seg_ok (t_segs t) = true ->
  run_ops (compile t) tl comps [] [] = match_segs (t_segs t) tl comps [].
Proof. intros t tl comps F. unfold compile. apply compile_correct_stack; exact F. Qed.

(* ---------- one route: the opcode-level step is the template-level step ---------- *)
Lemma ends_with_skipn s suffix : ends_with s suffix = true -> skipn (length s - length suffix) s = suffix /\ (length suffix <= length s)%nat.
Proof. unfold ends_with. intros H. apply andb_true_iff in H. destruct H as [E L]. apply bytes_eqb_eq in E. split; [exact E|lia]. Qed.

Lemma skipn_skipn_1 {A} (l : list A) n x r : skipn n l = x :: r -> skipn (S n) l = r.
Proof. revert n; induction l as [|a l IH]; intros n H; destruct n; cbn in *; try discriminate; [injection H as _ <-; reflexivity|exact (IH _ H)]. Qed.

Theorem route_step_spec : forall t comps, forallb seg_ok (t_segs t) = true ->
  route_step false (compile t) (t_verb t) comps = spec_step t comps.
Proof.
  intros t comps F. unfold route_step, spec_step. set (lastc := last comps []). set (v := t_verb t).
  destruct v as [|v0 v'] eqn:EV.
  - cbn [andb]. unfold match_pattern. cbn [bytes_eqb]. change (bytes_eqb [] []) with true. cbv iota.
    rewrite (compile_correct t _ comps F). reflexivity.
  - destruct (ends_with lastc (c_colon :: v0 :: v')) eqn:E; cbn [andb].
    + destruct (ends_with_skipn _ _ E) as [SK LE]. cbn [length] in SK, LE |- *.
      destruct (Nat.eqb (length lastc - S (length v') - 1) 0) eqn:Z.
      * apply Nat.eqb_eq in Z. cbn [length] in Z. replace (Nat.eqb (length lastc) (S (S (length v')))) with true by (symmetry; apply Nat.eqb_eq; lia).
        reflexivity.
      * apply Nat.eqb_neq in Z. cbn [length] in Z. replace (Nat.eqb (length lastc) (S (S (length v')))) with false by (symmetry; apply Nat.eqb_neq; lia).
        cbn [negb]. unfold match_pattern.
        replace (skipn (S (length lastc - S (length v') - 1)) lastc) with (v0 :: v').
        2:{ symmetry. apply (skipn_skipn_1 lastc _ c_colon). replace (length lastc - S (length v') - 1)%nat with (length lastc - S (S (length v')))%nat by lia. exact SK. }
        rewrite bytes_eqb_refl. rewrite (compile_correct t _ _ F). reflexivity.
    + unfold match_pattern. cbn [bytes_eqb]. change (bytes_eqb (v0 :: v') []) with false. cbv iota. reflexivity.
Qed.

(* ---------- the table: first match in (target, binding) order ---------- *)
Definition to_ops (r : Z * Z * template) : Z * Z * list op * bytes := let '(ti, bi, t) := r in (ti, bi, compile t, t_verb t).

Lemma first_route_spec : forall routes comps, (forall ti bi t, In (ti, bi, t) routes -> forallb seg_ok (t_segs t) = true) ->
  first_route false (map to_ops routes) comps = spec_route routes comps.
Proof.
  induction routes as [|[[ti bi] t] routes IH]; intros comps F; [reflexivity|].
  cbn [map to_ops first_route spec_route]. rewrite (route_step_spec t comps (F ti bi t (or_introl eq_refl))).
  destruct (spec_step t comps); try reflexivity. apply IH. intros ti' bi' t' Hin. apply (F ti' bi' t'). right; exact Hin.
Qed.

(* what "the first matching binding wins" means *)
Lemma spec_route_first : forall routes comps ti bi vars,
  spec_route routes comps = VL [VN 0; VN ti; VN bi; v_vars vars] ->
  exists before t after vars', routes = before ++ (ti, bi, t) :: after /\ spec_step t comps = Found vars' /\ v_vars vars' = v_vars vars /\
    forall r, In r before -> spec_step (snd r) comps = Skip.
Proof.
  induction routes as [|[[ti0 bi0] t0] routes IH]; intros comps ti bi vars H; cbn [spec_route] in H; [discriminate|].
  destruct (spec_step t0 comps) as [|c|vars0] eqn:S.
  - destruct (IH _ _ _ _ H) as (before & t & after & vars' & -> & St & Ev & B).
    exists ((ti0, bi0, t0) :: before), t, after, vars'. repeat split; auto.
    intros r [<-|Hin]; [exact S|exact (B r Hin)].
  - discriminate.
  - inversion H as [[E1 E2 Ev]]. subst. exists [], t0, routes, vars0. split; [reflexivity|]. split; [exact S|]. split; [unfold v_vars; rewrite Ev; reflexivity|]. intros r [].
Qed.
Lemma spec_step_abort t comps c : spec_step t comps = Abort c -> c = 3%Z.
Proof.
  unfold spec_step. destruct (t_verb t) as [|v0 v'].
  - destruct (match_segs _ _ _ _); intros H; try discriminate. injection H as <-. reflexivity.
  - destruct (ends_with _ _ && _); [|discriminate]. destruct (match_segs _ _ _ _); intros H; try discriminate. injection H as <-. reflexivity.
Qed.
Lemma spec_route_notfound : forall routes comps, spec_route routes comps = VL [VN 5] -> forall r, In r routes -> spec_step (snd r) comps = Skip.
Proof.
  induction routes as [|[[ti0 bi0] t0] routes IH]; intros comps H r Hin; [destruct Hin|]. cbn [spec_route] in H.
  destruct (spec_step t0 comps) as [|c|vars0] eqn:S; try discriminate.
  - destruct Hin as [<-|Hin]; [exact S|exact (IH _ H r Hin)].
  - apply spec_step_abort in S. subst c. discriminate.
Qed.

(* ---------- percent-decoding: exactly once ---------- *)
Definition hexd (n : N) : N := if n <? 10 then 48 + n else 55 + n.
Definition pct (c : N) : bytes := [c_pct; hexd (c / 16); hexd (c mod 16)].
Lemma hexd_roundtrip n : n < 16 -> is_hex (hexd n) = true /\ hexv (hexd n) = n.
Proof.
  intros H. assert (In n (map N.of_nat (seq 0 16))) as I by (rewrite <- (N2Nat.id n); apply in_map, in_seq; lia).
  revert I. generalize n. apply Forall_forall. vm_compute. repeat constructor.
Qed.
Lemma pct_decodes c : c < 256 -> is_hex (hexd (c / 16)) = true /\ is_hex (hexd (c mod 16)) = true /\ hexv (hexd (c / 16)) * 16 + hexv (hexd (c mod 16)) = c.
Proof.
  intros H. destruct (hexd_roundtrip (c / 16)) as [A1 A2]; [apply N.div_lt_upper_bound; lia|].
  destruct (hexd_roundtrip (c mod 16)) as [B1 B2]; [apply N.mod_lt; lia|].
  repeat split; auto. rewrite A2, B2. pose proof (N.div_mod c 16 ltac:(lia)). lia.
Qed.

(* a single-segment capture of a fully percent-encoded byte string is that byte string: one decoding, nothing left *)
Lemma unescape_f_pct_all : forall s fuel, Forall (fun c => c < 256) s -> (length (flat_map pct s) <= fuel)%nat ->
  unescape_f fuel false (flat_map pct s) = Some s.
Proof.
  induction s as [|c s IH]; intros fuel A L.
  - destruct fuel; reflexivity.
  - inversion A as [|? ? Hc Hs]; subst. cbn [flat_map pct app] in *. cbn [length] in L.
    destruct fuel as [|fuel]; [lia|]. cbn [unescape_f]. change (c_pct =? c_pct) with true. cbv iota.
    destruct (pct_decodes c Hc) as (H1 & H2 & H3). rewrite H1, H2. cbn [andb]. rewrite (IH fuel Hs ltac:(lia)). cbn [andb]. rewrite H3. reflexivity.
Qed.
Theorem unescape_pct_all s : Forall (fun c => c < 256) s -> unescape false (flat_map pct s) = Some s.
Proof. intros A. apply unescape_f_pct_all; [exact A|lia]. Qed.

(* text without a percent sign is taken as it is *)
Lemma unescape_f_plain : forall s fuel multi, (length s <= fuel)%nat -> forallb (fun c => negb (c =? c_pct)) s = true -> unescape_f fuel multi s = Some s.
Proof.
  induction s as [|c s IH]; intros fuel multi L P; [destruct fuel; reflexivity|].
  cbn [length] in L. destruct fuel as [|fuel]; [lia|]. cbn [forallb] in P. apply andb_true_iff in P. destruct P as [Pc Ps].
  cbn [unescape_f]. apply negb_true_iff in Pc. rewrite Pc. rewrite (IH fuel multi ltac:(lia) Ps). reflexivity.
Qed.

(* decoding once: an escaped percent sign yields a percent sign that is NOT decoded again *)
Example decode_once : unescape false [37; 50; 53; 50; 48] = Some [37; 50; 48].    (* %2520 -> %20 *)
Proof. reflexivity. Qed.
(* reserved characters stay encoded in multi-segment captures only *)
Example reserved_multi : unescape true [97; 37; 50; 70; 98] = Some [97; 37; 50; 70; 98] /\ unescape false [97; 37; 50; 70; 98] = Some [97; 47; 98].
Proof. split; reflexivity. Qed.

(* in a multi-segment capture a reserved character keeps its escape, every other byte is decoded *)
Lemma unescape_multi_step c rest fuel t : c < 256 -> unescape_f fuel true rest = Some t ->
  unescape_f (S fuel) true (pct c ++ rest) = Some (if is_reserved c then pct c ++ t else c :: t).
Proof.
  intros Hc R. cbn [pct app unescape_f]. change (c_pct =? c_pct) with true. cbv iota.
  destruct (pct_decodes c Hc) as (H1 & H2 & H3). rewrite H1, H2, R. cbn [andb]. rewrite H3. destruct (is_reserved c); reflexivity.
Qed.

(* ---------- compile is injective on what the parser produces: the structure can be read back from the opcodes ---------- *)
Lemma decompile_flat : forall inner rest stack, forallb flat inner = true ->
  decompile (flat_map compile_seg inner ++ rest) stack = decompile rest (rev inner ++ stack).
Proof.
  induction inner as [|s inner IH]; intros rest stack F; [reflexivity|].
  cbn [forallb] in F. apply andb_true_iff in F. destruct F as [Fs F].
  destruct s; try discriminate; cbn [flat_map compile_seg app decompile rev]; rewrite IH by exact F; rewrite <- app_assoc; reflexivity.
Qed.
