From GB Require Import Model.MDFilter.
From Coq Require Import Lia.
Open Scope N_scope.

Lemma list_eqb_spec {A} (eqb : A -> A -> bool) (H : forall x y, eqb x y = true <-> x = y) :
  forall a b, list_eqb eqb a b = true <-> a = b.
Proof.
  induction a as [|x a IH]; destruct b as [|y b]; simpl; split; intros E; try discriminate; auto.
  - apply andb_prop in E as [E1 E2]. apply H in E1. apply IH in E2. congruence.
  - injection E as -> ->. apply andb_true_intro. split; [apply H; reflexivity | apply IH; reflexivity].
Qed.

Lemma bytes_eqb_eq a b : bytes_eqb a b = true <-> a = b.
Proof. apply list_eqb_spec. intros; apply N.eqb_eq. Qed.

Lemma bytes_eqb_refl a : bytes_eqb a a = true.
Proof. apply bytes_eqb_eq; reflexivity. Qed.

Lemma bytes_eqb_neq a b : bytes_eqb a b = false <-> a <> b.
Proof. split; intros H. - intros E. apply bytes_eqb_eq in E. congruence.
  - destruct (bytes_eqb a b) eqn:E; [apply bytes_eqb_eq in E; contradiction | reflexivity]. Qed.

Lemma lookup_del_same k m : md_lookup k (md_del_raw k m) = [].
Proof.
  induction m as [|[k' vs] m IH]; [reflexivity|]. simpl.
  destruct (bytes_eqb k k') eqn:E; simpl; [exact IH|]. rewrite E. exact IH.
Qed.

Lemma lookup_del_other k k' m : k <> k' -> md_lookup k' (md_del_raw k m) = md_lookup k' m.
Proof.
  intros N. induction m as [|[k2 vs] m IH]; [reflexivity|]. simpl.
  destruct (bytes_eqb k k2) eqn:E; simpl.
  - apply bytes_eqb_eq in E. subst k2. destruct (bytes_eqb k' k) eqn:E2; [apply bytes_eqb_eq in E2; congruence | exact IH].
  - destruct (bytes_eqb k' k2); [reflexivity | exact IH].
Qed.

Lemma keys_del k m : ~ In k (map fst (md_del_raw k m)).
Proof.
  induction m as [|[k' vs] m IH]; simpl; [tauto|].
  destruct (bytes_eqb k k') eqn:E; simpl; [exact IH|].
  apply bytes_eqb_neq in E. intros [H|H]; [congruence | tauto].
Qed.

Lemma keys_del_subset k k' m : In k' (map fst (md_del_raw k m)) -> In k' (map fst m).
Proof.
  induction m as [|[k2 vs] m IH]; simpl; [tauto|].
  destruct (bytes_eqb k k2); simpl; tauto.
Qed.

Lemma lookup_set k vs m k' : vs <> [] ->
  md_lookup k' (md_set k vs m) = if bytes_eqb k' (lower k) then vs else md_lookup k' m.
Proof.
  intros NE. unfold md_set. destruct vs as [|v vs]; [congruence|]. simpl.
  destruct (bytes_eqb k' (lower k)) eqn:E; [reflexivity|].
  apply lookup_del_other. apply bytes_eqb_neq in E. congruence.
Qed.

(* "no empty value lists are stored": true of everything md_set builds *)
Definition nonempty_vals (m : md) : Prop := forall k vs, In (k, vs) m -> vs <> [].

Lemma nonempty_del k m : nonempty_vals m -> nonempty_vals (md_del_raw k m).
Proof. intros H k' vs I. unfold md_del_raw in I. apply filter_In in I as [I _]. eauto. Qed.

Lemma nonempty_set k vs m : nonempty_vals m -> nonempty_vals (md_set k vs m).
Proof.
  intros H. unfold md_set. destruct vs as [|v vs]; [exact H|].
  intros k' vs' [I|I]; [injection I as <- <-; discriminate|]. eapply nonempty_del; eauto.
Qed.

Lemma lookup_nonempty_key k m : nonempty_vals m -> In k (map fst m) -> md_lookup k m <> [].
Proof.
  induction m as [|[k' vs] m IH]; simpl; [tauto|]. intros H I.
  destruct (bytes_eqb k k') eqn:E.
  - apply (H k' vs). left; reflexivity.
  - apply IH. + intros a b J. apply (H a b). right; exact J.
    + destruct I as [I|I]; [apply bytes_eqb_neq in E; congruence | exact I].
Qed.

Lemma lookup_key k m : md_lookup k m <> [] -> In k (map fst m).
Proof.
  induction m as [|[k' vs] m IH]; simpl; [tauto|].
  destruct (bytes_eqb k k') eqn:E; [apply bytes_eqb_eq in E; auto | auto].
Qed.

(* ---- request direction ---- *)
Section Request.
  Variables (prefix : bytes) (m : md).

  Definition req_inv (allow : list bytes) (out : md) : Prop :=
    nonempty_vals out /\
    forall k', md_lookup k' out <> [] ->
      exists k, In k allow /\ md_get k m <> [] /\ k' = lower (rename_req prefix k) /\
                md_lookup k' out = xform_req (rename_req prefix k) (md_get k m).

  Lemma req_inv_mono a1 a2 out : (forall k, In k a1 -> In k a2) -> req_inv a1 out -> req_inv a2 out.
  Proof. intros S [H1 H2]. split; [exact H1|]. intros k' L. destruct (H2 k' L) as (k & I & R). exists k. split; auto. Qed.

  Lemma req_step allow out k : req_inv allow out -> req_inv (allow ++ [k]) (filter_request_step prefix m out k).
  Proof.
    intros Inv. unfold filter_request_step.
    destruct (md_get k m) as [|v vs] eqn:G.
    { eapply req_inv_mono; [|exact Inv]. intros; apply in_or_app; auto. }
    destruct Inv as [H1 H2]. split; [apply nonempty_set; exact H1|].
    intros k' L.
    set (k2 := rename_req prefix k) in *.
    destruct (xform_req k2 (v :: vs)) as [|x xs] eqn:X.
    - (* all values dropped: Set is a no-op *)
      unfold md_set in *. destruct (H2 k' L) as (k0 & I & R). exists k0. split; [apply in_or_app; auto | exact R].
    - rewrite lookup_set in * by discriminate.
      destruct (bytes_eqb k' (lower k2)) eqn:E.
      + apply bytes_eqb_eq in E. exists k. split; [apply in_or_app; right; left; reflexivity|].
        rewrite G. split; [discriminate|]. split; [exact E|]. fold k2. rewrite X. reflexivity.
      + destruct (H2 k' L) as (k0 & I & R). exists k0. split; [apply in_or_app; auto | exact R].
  Qed.

  Lemma req_fold : forall allow done out, req_inv done out ->
    req_inv (done ++ allow) (fold_left (filter_request_step prefix m) allow out).
  Proof.
    induction allow as [|k allow IH]; intros done out Inv; simpl.
    - rewrite app_nil_r. exact Inv.
    - replace (done ++ k :: allow) with ((done ++ [k]) ++ allow) by (rewrite <- app_assoc; reflexivity).
      apply IH. apply req_step. exact Inv.
  Qed.

  Theorem filter_request_allowlisted allow : req_inv allow (filter_request allow prefix m).
  Proof.
    unfold filter_request. apply (req_fold allow [] []).
    split; [intros k vs []|]. intros k' L. simpl in L. congruence.
  Qed.
End Request.

(* ---- response / trailer direction ---- *)
Section Response.
  Variables (prefix : bytes) (m : md).

  Definition resp_inv (allow : list bytes) (out : md) : Prop :=
    nonempty_vals out /\
    forall k', md_lookup k' out <> [] ->
      exists k, In k allow /\ k' = lower (prefix ++ k) /\ md_lookup k' out = md_get k m.

  Lemma resp_step allow out k : resp_inv allow out -> resp_inv (allow ++ [k]) (filter_response_step prefix m out k).
  Proof.
    intros [H1 H2]. unfold filter_response_step.
    destruct (md_get k m) as [|v vs] eqn:G.
    { split; [exact H1|]. intros k' L. destruct (H2 k' L) as (k0 & I & R). exists k0. split; [apply in_or_app; auto | exact R]. }
    split; [apply nonempty_set; exact H1|]. intros k' L.
    rewrite lookup_set in * by discriminate.
    destruct (bytes_eqb k' (lower (prefix ++ k))) eqn:E.
    - apply bytes_eqb_eq in E. exists k. split; [apply in_or_app; right; left; reflexivity|]. split; [exact E | symmetry; exact G].
    - destruct (H2 k' L) as (k0 & I & R). exists k0. split; [apply in_or_app; auto | exact R].
  Qed.

  Lemma resp_fold : forall allow done out, resp_inv done out ->
    resp_inv (done ++ allow) (fold_left (filter_response_step prefix m) allow out).
  Proof.
    induction allow as [|k allow IH]; intros done out Inv; simpl.
    - rewrite app_nil_r. exact Inv.
    - replace (done ++ k :: allow) with ((done ++ [k]) ++ allow) by (rewrite <- app_assoc; reflexivity).
      apply IH. apply resp_step. exact Inv.
  Qed.

  Theorem filter_response_allowlisted allow : resp_inv allow (filter_response allow prefix m).
  Proof.
    unfold filter_response. apply (resp_fold allow [] []).
    split; [intros k vs []|]. intros k' L. simpl in L. congruence.
  Qed.
End Response.

(* ---- default deny ---- *)
Theorem default_deny_response prefix m : filter_response [] prefix m = [].
Proof. reflexivity. Qed.

Lemma del_set_same k vs : md_delete k (md_set k vs []) = [].
Proof.
  unfold md_delete, md_set. destruct vs; [reflexivity|]. simpl. rewrite bytes_eqb_refl. reflexivity.
Qed.

Theorem default_deny_request prefix m : outgoing_md [] prefix m = [].
Proof.
  unfold outgoing_md, filter_request_md, filter_request. cbn [fold_left].
  destruct (md_get timeout_key m) as [|v vs] eqn:G.
  - reflexivity.
  - unfold base_context. unfold md_get at 1. rewrite lookup_set by discriminate.
    rewrite bytes_eqb_refl. cbn [fst]. apply (del_set_same timeout_key (v :: vs)).
Qed.

(* ---- the timeout key is consumed, never forwarded ---- *)
Lemma filter_request_md_nonempty allow prefix m : nonempty_vals (filter_request_md allow prefix m).
Proof.
  unfold filter_request_md. pose proof (filter_request_allowlisted prefix m allow) as [H _].
  destruct (md_get timeout_key m); [exact H | apply nonempty_set; exact H].
Qed.

Theorem timeout_never_forwarded allow prefix m :
  ~ In (lower timeout_key) (map fst (outgoing_md allow prefix m)).
Proof.
  unfold outgoing_md, base_context.
  set (f := filter_request_md allow prefix m).
  destruct (md_get timeout_key f) as [|v vs] eqn:G; simpl.
  - intros I. apply (lookup_nonempty_key _ _ (filter_request_md_nonempty allow prefix m)) in I.
    subst f. unfold md_get in G. exact (I G).
  - unfold md_delete. apply keys_del.
Qed.

(* every outgoing key is a renamed, present allow-list entry (the timeout pass-through is deleted again) *)
Theorem outgoing_allowlisted allow prefix m k' :
  In k' (map fst (outgoing_md allow prefix m)) ->
  exists k, In k allow /\ md_get k m <> [] /\ k' = lower (rename_req prefix k).
Proof.
  intros I.
  assert (K : In k' (map fst (filter_request_md allow prefix m)) /\ k' <> lower timeout_key).
  { split.
    - revert I. unfold outgoing_md, base_context.
      destruct (md_get timeout_key (filter_request_md allow prefix m)); simpl; [auto|].
      apply keys_del_subset.
    - intros ->. exact (timeout_never_forwarded allow prefix m I). }
  destruct K as [K NT].
  apply (lookup_nonempty_key _ _ (filter_request_md_nonempty allow prefix m)) in K.
  unfold filter_request_md in K.
  pose proof (filter_request_allowlisted prefix m allow) as [_ H].
  destruct (md_get timeout_key m) as [|v vs] eqn:G.
  - destruct (H k' K) as (k & I1 & I2 & I3 & _). eauto.
  - rewrite lookup_set in K by discriminate.
    destruct (bytes_eqb k' (lower timeout_key)) eqn:E; [apply bytes_eqb_eq in E; contradiction|].
    destruct (H k' K) as (k & I1 & I2 & I3 & _). eauto.
Qed.

(* ---- provenance: whatever an entry point puts in the incoming MD was supplied by the client ---- *)
Definition supplied_key (ps : pairs) (k : bytes) : Prop := exists k0 v, In (k0, v) ps /\ lower k0 = k.

Lemma headers_fold_keys : forall hs acc k,
  In k (map fst (fold_left (fun m kv => md_append (fst kv) (snd kv) m) hs acc)) ->
  In k (map fst acc) \/ supplied_key hs k.
Proof.
  induction hs as [|[k0 v] hs IH]; intros acc k I; simpl in *; [auto|].
  apply IH in I as [I|(k1 & v1 & I1 & I2)].
  - unfold md_append in I. simpl in I. destruct I as [I|I].
    + right. exists k0, v. split; [left; reflexivity | exact I].
    + left. eapply keys_del_subset; eauto.
  - right. exists k1, v1. split; [right; exact I1 | exact I2].
Qed.

Lemma query_fold_keys : forall qs acc k,
  In k (map fst (fold_left (fun m kv => if valid_md_key (fst kv) && valid_md_value (snd kv) then md_append (fst kv) (snd kv) m else m) qs acc)) ->
  In k (map fst acc) \/ supplied_key qs k.
Proof.
  induction qs as [|[k0 v] qs IH]; intros acc k I; simpl in *; [auto|].
  apply IH in I as [I|(k1 & v1 & I1 & I2)].
  - destruct (valid_md_key k0 && valid_md_value v); [|auto].
    unfold md_append in I. simpl in I. destruct I as [I|I].
    + right. exists k0, v. split; [left; reflexivity | exact I].
    + left. eapply keys_del_subset; eauto.
  - right. exists k1, v1. split; [right; exact I1 | exact I2].
Qed.

Lemma join_fold_keys : forall l acc k,
  In k (map fst (fold_left (fun m kv => (fst kv, md_lookup (fst kv) m ++ snd kv) :: md_del_raw (fst kv) m) l acc)) ->
  In k (map fst acc) \/ In k (map fst l).
Proof.
  induction l as [|[k0 vs] l IH]; intros acc k I; simpl in *; [auto|].
  apply IH in I as [I|I]; [|auto]. simpl in I. destruct I as [I|I]; [auto|].
  left. eapply keys_del_subset; eauto.
Qed.

Theorem entry_md_provenance e hs qs k :
  In k (map fst (entry_md e hs qs)) ->
  supplied_key hs k \/ (e = EWS /\ supplied_key qs k).
Proof.
  destruct e; simpl; unfold headers_to_md; intros I;
    try (apply headers_fold_keys in I as [[]|I]; left; exact I).
  unfold md_join in I. apply join_fold_keys in I as [[]|I].
  rewrite map_app in I. apply in_app_or in I as [I|I].
  - right. split; [reflexivity|]. unfold query_to_md in I. apply query_fold_keys in I as [[]|I]. exact I.
  - left. apply headers_fold_keys in I as [[]|I]. exact I.
Qed.

(* non-vacuity: a configuration where something is forwarded, renamed and decoded *)
Example forwards_something :
  outgoing_md [[88;45;65]; [120;45;99;45;98;105;110]] [112;45]
              [([120;45;97], [[118]]); ([120;45;99;45;98;105;110], [[81;85;73;61]]); ([103;114;112;99;45;116;105;109;101;111;117;116], [[53;83]])]
  = [([112;45;120;45;99;45;98;105;110], [[65;66]]); ([112;45;120;45;97], [[118]])].
Proof. vm_compute. reflexivity. Qed.
