(* C20: soundness of the strict parser's lookup structure (Model/Trie.v): whatever sequence of templates was added,
   a template returned for a path matches that path.  Found while proving: before the repair (finding F30) it did not. *)
From Coq Require Import Lia.
From GB Require Import Model.Trie Proofs.MDFilterProofs Proofs.TemplateProofs.
Local Open Scope nat_scope.

(* ---------- matching on flattened segments ---------- *)
Fixpoint fmatch (fs : list fseg) (comps : list bytes) : bool :=
  match fs with
  | [] => match comps with [] => true | _ => false end
  | FWild :: r => match comps with _ :: cs => fmatch r cs | [] => false end
  | FLit l :: r => match comps with c :: cs => bytes_eqb c l && fmatch r cs | [] => false end
  | FDeep :: r => match r with [] => true | _ => false end
  end.
Definition strip (lastc v : bytes) : bytes := firstn (length lastc - length v - 1) lastc.
Definition tmatch (fs : list fseg) (v : bytes) (comps : list bytes) : bool :=
  match v with
  | [] => fmatch fs comps
  | _ => ends_with (last comps []) (c_colon :: v) && fmatch fs (removelast comps ++ [strip (last comps []) v])
  end.
Definition nonvar (i : seg) : bool := match i with SVar _ _ => false | _ => true end.
Definition nn (s : seg) : bool := match s with SVar _ inner => forallb nonvar inner | _ => true end.
Definition noslash (v : bytes) : bool := negb (existsb (N.eqb c_slash) v).

Lemma raw_inner_flat : forall inner k comps, forallb nonvar inner = true ->
  fmatch (flat_map flat_inner inner ++ k) comps = true ->
  exists rest, raw_inner inner comps = Some rest /\ fmatch k rest = true.
Proof.
  induction inner as [|s r IH]; intros k comps Hn H.
  - exists comps. split; [reflexivity | exact H].
  - destruct s as [| |l|p i]; simpl in Hn; try discriminate.
    + simpl in H. destruct comps as [|c cs]; [discriminate|]. simpl. apply IH; assumption.
    + simpl in H. destruct (flat_map flat_inner r ++ k) as [|x y] eqn:E; [|discriminate].
      apply app_eq_nil in E as [E1 E2]. subst k.
      destruct r as [|s' r']; [|destruct s'; simpl in *; discriminate].
      exists []. split; reflexivity.
    + simpl in H. destruct comps as [|c cs]; [discriminate|]. apply andb_true_iff in H as [H1 H2].
      simpl. rewrite H1. apply IH; assumption.
Qed.

Lemma raw_of_flat : forall segs comps, forallb nn segs = true -> fmatch (flatten segs) comps = true -> raw_match segs comps = true.
Proof.
  induction segs as [|a r IH]; intros comps Hn H.
  - destruct comps; simpl in *; auto.
  - simpl in Hn. apply andb_true_iff in Hn as [Ha Hr]. unfold flatten in H. simpl in H. fold (flatten r) in H.
    destruct a as [| |l|p inner].
    + destruct (raw_inner_flat [SWild] (flatten r) comps eq_refl H) as (rest & E & F).
      change (raw_match (SWild :: r) comps) with (match raw_inner [SWild] comps with Some rest => raw_match r rest | None => false end).
      rewrite E. apply IH; assumption.
    + destruct (raw_inner_flat [SDeep] (flatten r) comps eq_refl H) as (rest & E & F).
      change (raw_match (SDeep :: r) comps) with (match raw_inner [SDeep] comps with Some rest => raw_match r rest | None => false end).
      rewrite E. apply IH; assumption.
    + destruct (raw_inner_flat [SLit l] (flatten r) comps eq_refl H) as (rest & E & F).
      change (raw_match (SLit l :: r) comps) with (match raw_inner [SLit l] comps with Some rest => raw_match r rest | None => false end).
      rewrite E. apply IH; assumption.
    + simpl in Ha. destruct (raw_inner_flat inner (flatten r) comps Ha H) as (rest & E & F).
      change (raw_match (SVar p inner :: r) comps) with (match raw_inner inner comps with Some rest => raw_match r rest | None => false end).
      rewrite E. apply IH; assumption.
Qed.

(* ---------- association lists ---------- *)
Lemma lit_get_in l lits c : lit_get l lits = Some c -> In (l, c) lits.
Proof.
  induction lits as [|[k c'] r IH]; simpl; [discriminate|]. destruct (bytes_eqb k l) eqn:E.
  - intros [= ->]. apply bytes_eqb_eq in E. subst. left. reflexivity.
  - intros H. right. apply IH. exact H.
Qed.
Lemma lit_upd_in l f lits k c : In (k, c) (lit_upd l f lits) ->
  In (k, c) lits \/ (k = l /\ exists c0, c = f c0 /\ (In (k, c0) lits \/ c0 = empty_node)).
Proof.
  induction lits as [|[k' c'] r IH]; simpl.
  - intros [[= <- <-]|[]]. right. split; [reflexivity|]. exists empty_node. auto.
  - destruct (bytes_eqb k' l) eqn:E.
    + intros [[= <- <-]|H]; [|left; right; exact H]. apply bytes_eqb_eq in E. subst. right. split; [reflexivity|]. exists c'. auto.
    + intros [[= <- <-]|H]; [left; left; reflexivity|]. destruct (IH H) as [H1 | (-> & c0 & -> & [H2| ->])].
      * left. right. exact H1.
      * right. split; [reflexivity|]. exists c0. auto.
      * right. split; [reflexivity|]. exists empty_node. auto.
Qed.
Lemma verb_get_in v verbs i : verb_get v verbs = Some i -> In (v, i) verbs.
Proof.
  induction verbs as [|[k j] r IH]; simpl; [discriminate|]. destruct (bytes_eqb k v) eqn:E.
  - intros [= ->]. apply bytes_eqb_eq in E. subst. left. reflexivity.
  - intros H. right. apply IH. exact H.
Qed.
Lemma verb_set_in v id verbs k i : In (k, i) (verb_set v id verbs) -> In (k, i) verbs \/ (k = v /\ i = id).
Proof.
  induction verbs as [|[k' j] r IH]; simpl.
  - intros [[= <- <-]|[]]. right. auto.
  - destruct (bytes_eqb k' v) eqn:E.
    + intros [[= <- <-]|H]; [|left; right; exact H]. apply bytes_eqb_eq in E. right. auto.
    + intros [[= <- <-]|H]; [left; left; reflexivity|]. destruct (IH H) as [H1|H1]; [left; right; exact H1 | right; exact H1].
Qed.

(* ---------- strings ---------- *)
Lemma lio_spec ch : forall s i acc j, last_index_of ch s i acc = Some j ->
  acc = Some j \/ (i <= j /\ s = firstn (j - i) s ++ ch :: skipn (S (j - i)) s).
Proof.
  induction s as [|x r IH]; intros i acc j H; simpl in H.
  - left. exact H.
  - apply IH in H. destruct H as [H | [H1 H2]].
    + destruct (N.eqb x ch) eqn:E.
      * injection H as <-. right. split; [lia|]. rewrite Nat.sub_diag. simpl. apply N.eqb_eq in E. subst. reflexivity.
      * left. exact H.
    + right. split; [lia|]. replace (j - i) with (S (j - S i)) by lia. simpl. f_equal. exact H2.
Qed.
Lemma lio_split ch s j : last_index_of ch s 0 None = Some j -> s = firstn j s ++ ch :: skipn (S j) s.
Proof. intros H. apply lio_spec in H as [H | [_ H]]; [discriminate|]. rewrite Nat.sub_0_r in H. exact H. Qed.

Lemma ends_with_app a b : ends_with (a ++ b) b = true.
Proof.
  unfold ends_with. rewrite app_length. replace (length a + length b - length b) with (length a) by lia.
  rewrite skipn_app, Nat.sub_diag, skipn_all. simpl. rewrite bytes_eqb_refl. simpl. apply Nat.leb_le. lia.
Qed.
Lemma ends_with_split s suf : ends_with s suf = true -> s = firstn (length s - length suf) s ++ suf.
Proof.
  intros H. apply ends_with_skipn in H as [H _]. pose proof (firstn_skipn (length s - length suf) s) as F. rewrite H in F. symmetry. exact F.
Qed.

Lemma split_slash_nonnil s : forall cur, split_slash s cur <> [].
Proof. induction s as [|c r IH]; intros cur; simpl; [discriminate|]. destruct (N.eqb c c_slash); [discriminate | apply IH]. Qed.
Lemma split_noslash : forall t cur, noslash t = true -> split_slash t cur = [rev cur ++ t].
Proof.
  induction t as [|a t IH]; intros cur H.
  - simpl. rewrite app_nil_r. reflexivity.
  - unfold noslash in H. cbn [existsb] in H. apply negb_true_iff in H. apply orb_false_iff in H as [H1 H2].
    cbn [split_slash]. rewrite N.eqb_sym, H1. rewrite IH by (unfold noslash; rewrite H2; reflexivity).
    cbn [rev]. rewrite <- app_assoc. reflexivity.
Qed.
Lemma split_app_noslash : forall s t cur, noslash t = true ->
  split_slash (s ++ t) cur = removelast (split_slash s cur) ++ [last (split_slash s cur) [] ++ t].
Proof.
  induction s as [|a s IH]; intros t cur H.
  - simpl. apply split_noslash. exact H.
  - simpl. destruct (N.eqb a c_slash).
    + rewrite IH by exact H. pose proof (split_slash_nonnil s []) as NN. destruct (split_slash s []) as [|y l]; [contradiction|]. reflexivity.
    + apply IH. exact H.
Qed.
Lemma ends_with_last_comp p v : noslash v = true -> ends_with p (c_colon :: v) = true ->
  ends_with (last (split_slash p []) []) (c_colon :: v) = true.
Proof.
  intros Hv H. apply ends_with_split in H. rewrite H. rewrite split_app_noslash.
  - rewrite last_last. apply ends_with_app.
  - unfold noslash in *. simpl. exact Hv.
Qed.

(* ---------- the invariant of the trie ---------- *)
Section Inv.
Variable ts : list template.
Definition owns (i : nat) (pre : list fseg) (v : bytes) : Prop :=
  exists t, nth_error ts i = Some t /\ flatten (t_segs t) = pre /\ t_verb t = v.
(* below a node reached by the edges [pre]: every template stored has exactly these flattened segments *)
Inductive NodeInv : list fseg -> node -> Prop :=
| NI : forall pre t lits verbs w m,
    (forall i, t = Some i -> owns i pre []) ->
    (forall v i, In (v, i) verbs -> owns i pre v /\ v <> []) ->
    (forall l c, In (l, c) lits -> NodeInv (pre ++ [FLit l]) c) ->
    (forall c, w = Some c -> NodeInv (pre ++ [FWild]) c) ->
    (forall c, m = Some c -> NodeInv (pre ++ [FDeep]) c) ->
    NodeInv pre (Node t lits verbs w m).

Lemma empty_inv pre : NodeInv pre empty_node.
Proof. constructor; intros; try discriminate; contradiction. Qed.

Lemma insert_inv : forall fs verb id n pre, NodeInv pre n -> owns id (pre ++ fs) verb -> NodeInv pre (insert fs verb id n).
Proof.
  induction fs as [|f r IH]; intros verb id n pre Hn Ho; destruct n as [t lits verbs w m];
    inversion Hn as [? ? ? ? ? ? Ht Hv Hl Hw Hm]; subst.
  - simpl. rewrite app_nil_r in Ho. destruct verb as [|b vb].
    + constructor; auto. intros i [= <-]. exact Ho.
    + constructor; auto. intros v i Hin. apply verb_set_in in Hin as [Hin | [-> ->]]; auto. split; [exact Ho | discriminate].
  - destruct f as [| |l]; simpl.
    + constructor; auto. intros c [= <-]. apply IH.
      * destruct w; simpl; [apply Hw; reflexivity | apply empty_inv].
      * rewrite <- app_assoc. exact Ho.
    + constructor; auto. intros c [= <-]. apply IH.
      * destruct m; simpl; [apply Hm; reflexivity | apply empty_inv].
      * rewrite <- app_assoc. exact Ho.
    + constructor; auto. intros k c Hin. apply lit_upd_in in Hin as [Hin | (-> & c0 & -> & Hc0)]; [apply Hl; exact Hin|].
      apply IH.
      * destruct Hc0 as [Hin | ->]; [apply Hl; exact Hin | apply empty_inv].
      * rewrite <- app_assoc. exact Ho.
Qed.

Lemma build_from_inv : forall suffix prefix n, ts = prefix ++ suffix -> NodeInv [] n -> NodeInv [] (build_from (length prefix) suffix n).
Proof.
  induction suffix as [|t r IH]; intros prefix n E Hn; simpl; [exact Hn|].
  specialize (IH (prefix ++ [t])). rewrite app_length in IH. simpl in IH.
  replace (length prefix + 1) with (S (length prefix)) in IH by lia. apply IH.
  - rewrite <- app_assoc. exact E.
  - apply insert_inv; [exact Hn|]. simpl. exists t. split; [|auto].
    rewrite E. rewrite nth_error_app2 by lia. rewrite Nat.sub_diag. reflexivity.
Qed.
Lemma build_inv : NodeInv [] (build ts).
Proof. apply (build_from_inv ts [] empty_node); [reflexivity | apply empty_inv]. Qed.

(* ---------- the lookup ---------- *)
Definition matched (pre : list fseg) (done : list bytes) : Prop :=
  forall k cs, fmatch k cs = true -> fmatch (pre ++ k) (done ++ cs) = true.
Lemma matched_lit pre done l : matched pre done -> matched (pre ++ [FLit l]) (done ++ [l]).
Proof. intros H k cs Hk. rewrite <- !app_assoc. apply H. simpl. rewrite bytes_eqb_refl. exact Hk. Qed.
Lemma matched_wild pre done c : matched pre done -> matched (pre ++ [FWild]) (done ++ [c]).
Proof. intros H k cs Hk. rewrite <- !app_assoc. apply H. simpl. exact Hk. Qed.

Variable orig : bytes.
Variable all : list bytes.
Hypothesis Horig : forall v, noslash v = true -> ends_with orig (c_colon :: v) = true -> ends_with (last all []) (c_colon :: v) = true.
Hypothesis Hts : forall i fs v, owns i fs v -> noslash v = true.

Definition good (i : nat) : Prop := exists fs v, owns i fs v /\ tmatch fs v all = true.

Lemma leaf_tmpl pre n i : NodeInv pre n -> matched pre all -> n_tmpl n = Some i -> good i.
Proof.
  intros Hn Hm E. inversion Hn as [? ? ? ? ? ? Ht Hv Hl Hw Hmm]; subst. simpl in E.
  exists pre, []. split; [apply Ht; exact E|]. simpl. specialize (Hm [] [] eq_refl). rewrite !app_nil_r in Hm. exact Hm.
Qed.

Definition suffix_verbs (n : node) : list nat := map snd (filter (fun kv => ends_with orig (c_colon :: fst kv)) (n_verbs n)).

Lemma verbs_pick pre n i : NodeInv pre n -> In i (suffix_verbs n) ->
  exists v, owns i pre v /\ v <> [] /\ ends_with (last all []) (c_colon :: v) = true.
Proof.
  intros Hn Hin. inversion Hn as [? ? ? ? ? ? Ht Hv Hl Hw Hmm]; subst. unfold suffix_verbs in Hin. simpl in Hin.
  apply in_map_iff in Hin as ([v j] & <- & Hf). apply filter_In in Hf as [Hf1 Hf2]. simpl in *.
  destruct (Hv _ _ Hf1) as [Ho Hne]. exists v. repeat split; auto. apply Horig; [eapply Hts; exact Ho | exact Hf2].
Qed.

Lemma leaf_verbs_wild pre0 done0 c n i : NodeInv (pre0 ++ [FWild]) n -> matched pre0 done0 -> all = done0 ++ [c] ->
  In i (suffix_verbs n) -> good i.
Proof.
  intros Hn Hm Ea Hin. destruct (verbs_pick _ _ _ Hn Hin) as (v & Ho & Hne & He).
  exists (pre0 ++ [FWild]), v. split; [exact Ho|]. destruct v as [|b v]; [contradiction|].
  unfold tmatch. rewrite He. simpl. rewrite Ea. rewrite removelast_last. apply Hm. reflexivity.
Qed.

Lemma leaf_verbs_multi pre done c rest m i : NodeInv (pre ++ [FDeep]) m -> matched pre done -> all = done ++ c :: rest ->
  In i (suffix_verbs m) -> good i.
Proof.
  intros Hn Hm Ea Hin. destruct (verbs_pick _ _ _ Hn Hin) as (v & Ho & Hne & He).
  exists (pre ++ [FDeep]), v. split; [exact Ho|]. destruct v as [|b v]; [contradiction|].
  unfold tmatch. rewrite He. simpl. rewrite Ea. rewrite removelast_app by discriminate.
  rewrite <- !app_assoc. apply Hm. reflexivity.
Qed.

Lemma dfs_sound : forall comps n pre done wild i,
  NodeInv pre n -> matched pre done -> done ++ comps = all ->
  (comps = [] -> wild = true -> exists pre0 done0 c, pre = pre0 ++ [FWild] /\ done = done0 ++ [c] /\ matched pre0 done0) ->
  In i (dfs false comps n orig wild) -> good i.
Proof.
  induction comps as [|c rest IH]; intros n pre done wild i Hn Hm Ea Hw Hin.
  - simpl in Hin. unfold dfs_leaf in Hin. rewrite app_nil_r in Ea. subst done.
    destruct (n_tmpl n) as [j|] eqn:Et.
    + destruct Hin as [<-|[]]. eapply leaf_tmpl; eauto.
    + rewrite orb_false_r in Hin. destruct wild; [|contradiction].
      destruct (Hw eq_refl eq_refl) as (pre0 & done0 & c & -> & E & Hm0).
      eapply leaf_verbs_wild; eauto.
  - inversion Hn as [? t lits verbs w m Ht Hv Hl Hww Hmm]; subst. cbn [dfs n_lits n_wild n_multi n_verbs] in Hin.
    destruct (lit_get c lits) as [child|] eqn:El.
    + apply lit_get_in in El. apply (IH child (pre ++ [FLit c]) (done ++ [c]) false i); auto.
      * apply matched_lit. exact Hm.
      * rewrite <- app_assoc. exact Ea.
      * intros _ [=].
    + match type of Hin with In i (match ?bv with _ => _ end) => destruct bv as [id|] eqn:Ev end.
      * destruct Hin as [<-|[]]. destruct rest as [|r1 r2]; [|discriminate].
        destruct (last_index_of c_colon c 0 None) as [j|] eqn:Ej; [|discriminate].
        destruct (lit_get (firstn j c) lits) as [next|] eqn:En; [|discriminate].
        apply lit_get_in in En. apply verb_get_in in Ev. specialize (Hl _ _ En).
        inversion Hl as [? ? ? ? ? ? _ Hv' _ _ _]; subst. cbn [n_verbs] in Ev. destruct (Hv' _ _ Ev) as [Ho Hne].
        exists (pre ++ [FLit (firstn j c)]), (skipn (S j) c). split; [exact Ho|].
        apply lio_split in Ej. remember (skipn (S j) c) as v eqn:Evv. destruct v as [|b v]; [congruence|].
        unfold tmatch. rewrite <- Ea. rewrite last_last, removelast_last.
        assert (Ec : c = firstn j c ++ c_colon :: b :: v) by exact Ej.
        assert (Hlen : length c = j + S (S (length v))).
        { rewrite Ec at 1. rewrite app_length. simpl. rewrite firstn_length_le; [lia|].
          assert (length c = length (firstn j c) + S (S (length v))) by (rewrite Ec at 1; rewrite app_length; reflexivity).
          rewrite firstn_length in H. lia. }
        apply andb_true_iff. split.
        -- rewrite Ec at 1. apply ends_with_app.
        -- unfold strip. simpl length. replace (length c - S (length v) - 1) with j by lia.
           apply Hm. simpl. rewrite bytes_eqb_refl. reflexivity.
      * destruct w as [wn|].
        -- apply (IH wn (pre ++ [FWild]) (done ++ [c]) true i); auto.
           ++ apply matched_wild. exact Hm.
           ++ rewrite <- app_assoc. exact Ea.
           ++ intros _ _. exists pre, done, c. auto.
        -- destruct m as [mn|]; [|contradiction]. specialize (Hmm mn eq_refl).
           unfold dfs_leaf in Hin. destruct (n_tmpl mn) as [j|] eqn:Et.
           ++ destruct Hin as [<-|[]]. inversion Hmm as [? ? ? ? ? ? Ht' _ _ _ _]; subst. simpl in Et.
              exists (pre ++ [FDeep]), []. split; [apply Ht'; exact Et|]. simpl. rewrite <- Ea. apply Hm. reflexivity.
           ++ simpl in Hin. eapply leaf_verbs_multi; eauto.
Qed.
End Inv.

(* ---------- Find ---------- *)
Definition trie_template_ok (t : template) : bool := no_nested t && noslash (t_verb t).

Theorem trie_find_sound : forall ts p i t,
  forallb trie_template_ok ts = true ->
  In i (find false (build ts) (c_slash :: p)) -> nth_error ts i = Some t ->
  template_matches t (c_slash :: p) = true.
Proof.
  intros ts p i t Hok Hin Hnth. unfold find, trim_slash in Hin. change (N.eqb c_slash c_slash) with true in Hin. cbv iota in Hin.
  assert (Hts : forall i fs v, owns ts i fs v -> noslash v = true).
  { intros i0 fs v (t0 & E & _ & <-). apply nth_error_In in E. rewrite forallb_forall in Hok. specialize (Hok _ E).
    unfold trie_template_ok in Hok. apply andb_true_iff in Hok as [_ H]. exact H. }
  pose proof (dfs_sound ts p (split_slash p []) (fun v Hv H => ends_with_last_comp p v Hv H) Hts
                (split_slash p []) (build ts) [] [] false i (build_inv ts)) as S.
  destruct S as (fs & v & (t0 & E & Ef & Ev) & Hm); auto.
  - intros k cs H. exact H.
  - intros _ [=].
  - rewrite Hnth in E. injection E as <-. subst fs v.
    assert (Hnn : forallb nn (t_segs t) = true).
    { apply nth_error_In in Hnth. rewrite forallb_forall in Hok. specialize (Hok _ Hnth).
      unfold trie_template_ok in Hok. apply andb_true_iff in Hok as [H _]. exact H. }
    unfold template_matches. change (N.eqb c_slash c_slash) with true. cbv iota.
    unfold tmatch in Hm. destruct (t_verb t) as [|b v].
    + apply raw_of_flat; assumption.
    + apply andb_true_iff in Hm as [H1 H2]. rewrite H1. simpl. apply raw_of_flat; [assumption|]. exact H2.
Qed.

(* before the repair: the only template "/x:v:v" (literal "x:v", verb "v") is returned for the path "/x:v" *)
Theorem trie_old_unsound : exists ts p i t,
  forallb trie_template_ok ts = true /\ In i (find true (build ts) p) /\ nth_error ts i = Some t /\ template_matches t p = false.
Proof.
  exists [ {| t_segs := [SLit [120; 58; 118]%N]; t_verb := [118]%N |} ], [47; 120; 58; 118]%N, 0,
         {| t_segs := [SLit [120; 58; 118]%N]; t_verb := [118]%N |}.
  vm_compute. repeat split; auto.
Qed.

(* the hypotheses are met and the lookup finds something: "/a/{n}:get" and "/a/b" for the paths "/a/zz:get" and "/a/b" *)
Example trie_finds :
  let ts := [ {| t_segs := [SLit [97]%N; SVar [[110]%N] [SWild]]; t_verb := [103; 101; 116]%N |};
              {| t_segs := [SLit [97]%N; SLit [98]%N]; t_verb := [] |} ] in
  forallb trie_template_ok ts = true /\
  find false (build ts) [47; 97; 47; 122; 122; 58; 103; 101; 116]%N = [0] /\
  find false (build ts) [47; 97; 47; 98]%N = [1].
Proof. vm_compute. repeat split; reflexivity. Qed.
