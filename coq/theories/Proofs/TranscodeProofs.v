(* C04 proofs: the request transcoding model *)
From Coq Require Import Lia ZArith List Bool ZifyBool.
From GB Require Import Model.Transcode Proofs.MDFilterProofs Proofs.JsonProofs.
Import ListNotations.
Open Scope Z_scope.

(* ---------- association lists ---------- *)
Lemma mget_mset_same n v m : mget n (mset n v m) = Some v.
Proof.
  induction m as [|[k x] r IH]; cbn [mset mget].
  - rewrite bytes_eqb_refl. reflexivity.
  - destruct (bytes_eqb k n) eqn:E; cbn [mget]; rewrite E; [reflexivity|exact IH].
Qed.
Lemma mget_mset_other n n' v m : n <> n' -> mget n' (mset n v m) = mget n' m.
Proof.
  intros Hne. induction m as [|[k x] r IH]; cbn [mset mget].
  - destruct (bytes_eqb n n') eqn:E; [apply bytes_eqb_eq in E; contradiction|reflexivity].
  - destruct (bytes_eqb k n) eqn:E; cbn [mget].
    + apply bytes_eqb_eq in E. subst k. destruct (bytes_eqb n n') eqn:E2; [apply bytes_eqb_eq in E2; contradiction|reflexivity].
    + destruct (bytes_eqb k n'); [reflexivity|exact IH].
Qed.
Lemma mget_filter_key (f : bytes -> bool) n m : f n = true -> mget n (filter (fun e => f (fst e)) m) = mget n m.
Proof.
  intros Hf. induction m as [|[k x] r IH]; [reflexivity|]. cbn [filter fst mget].
  destruct (bytes_eqb k n) eqn:E.
  - apply bytes_eqb_eq in E. subst k. rewrite Hf. cbn [mget]. rewrite bytes_eqb_refl. reflexivity.
  - destruct (f k); cbn [mget]; [rewrite E|]; exact IH.
Qed.

(* another member of fd's oneof *)
Definition sibling (fs : list fdesc) (fd : fdesc) (n : bytes) : bool :=
  negb (Z.eqb (fd_oneof fd) 0) &&
  existsb (fun g => Z.eqb (fd_oneof g) (fd_oneof fd) && bytes_eqb (fd_name g) n && negb (bytes_eqb (fd_name g) (fd_name fd))) fs.

Lemma mget_clear_oneof fs fd n m : sibling fs fd n = false -> mget n (clear_oneof fs fd m) = mget n m.
Proof.
  unfold sibling, clear_oneof. intros H. destruct (Z.eqb (fd_oneof fd) 0) eqn:E0; [reflexivity|]. cbn [negb andb] in H.
  apply (mget_filter_key (fun k => negb (existsb (fun g => Z.eqb (fd_oneof g) (fd_oneof fd) && bytes_eqb (fd_name g) k && negb (bytes_eqb (fd_name g) (fd_name fd))) fs))).
  rewrite H. reflexivity.
Qed.

(* ---------- reading a message at a field path (proto names) ---------- *)
Fixpoint lookup_path (m : msg) (p : list bytes) : option mv :=
  match p with
  | [] => None
  | n :: r => match r with
              | [] => mget n m
              | _ => match mget n m with Some (MM s) => lookup_path s r | _ => None end
              end
  end.
Lemma lookup_path_head m m' n r : mget n m' = mget n m -> lookup_path m' (n :: r) = lookup_path m (n :: r).
Proof. intros H. cbn [lookup_path]. rewrite H. reflexivity. Qed.
Lemma lookup_path_cons2 m n q r : lookup_path m (n :: q :: r) = match mget n m with Some (MM s) => lookup_path s (q :: r) | _ => None end.
Proof. reflexivity. Qed.
Lemma lookup_path_nil_msg r : r <> [] -> lookup_path [] r = None.
Proof. destruct r as [|n [|n2 r]]; [contradiction|reflexivity|reflexivity]. Qed.

(* ---------- populate: what it sets, and what it leaves alone ---------- *)
Lemma set_final_shape sc fs fd m values m' : set_final sc fs fd m values = Ok m' -> exists v, m' = mset (fd_name fd) v m.
Proof.
  unfold set_final. destruct (negb (Z.eqb (fd_oneof fd) 0) && _); [discriminate|].
  destruct (fd_card fd).
  - destruct values as [|vt [|? ?]]; try discriminate. destruct (parse_field sc (fd_kind fd) vt); [|discriminate]. intros E; injection E as <-. eexists; reflexivity.
  - destruct (collect _); [|discriminate]. intros E; injection E as <-. eexists; reflexivity.
  - destruct values as [|kt [|vt [|? ?]]]; try discriminate. destruct (parse_scalar kk kt); [|discriminate].
    destruct (parse_field sc (fd_kind fd) vt); [|discriminate]. intros E; injection E as <-. eexists; reflexivity.
Qed.

(* the population of `path` cannot reach the field path p: they part at some level, on different fields that are not
   members of one oneof *)
Fixpoint indep (fuel : nat) (sc : schema) (mi : nat) (path p : list bytes) : bool :=
  match fuel, path, p with
  | S f, name :: rest, n2 :: r2 =>
      match find_field name (fields_of sc mi) with
      | None => true
      | Some fd =>
          if bytes_eqb (fd_name fd) n2 then
            match rest, r2, fd_kind fd, fd_card fd with
            | _ :: _, _ :: _, FMsg idx, CSingle => indep f sc idx rest r2
            | _, _, _, _ => false
            end
          else negb (sibling (fields_of sc mi) fd n2)
      end
  | _, _, _ => true
  end.

Lemma populate_frame fuel : forall sc mi m path values m' p,
  populate_go fuel sc mi m path values = Ok m' -> indep fuel sc mi path p = true -> lookup_path m' p = lookup_path m p.
Proof.
  induction fuel as [|f IH]; intros sc mi m path values m' p H I; [discriminate|].
  destruct path as [|name rest]; [discriminate|]. cbn [populate_go] in H.
  destruct p as [|n2 r2]; [reflexivity|]. cbn [indep] in I.
  destruct (find_field name (fields_of sc mi)) as [fd|] eqn:F; [|injection H as <-; reflexivity].
  destruct (bytes_eqb (fd_name fd) n2) eqn:E.
  - apply bytes_eqb_eq in E. subst n2.
    destruct rest as [|r1 rest]; [discriminate|]. destruct r2 as [|q r2]; [discriminate|].
    destruct (fd_kind fd) as [k|idx]; [discriminate|]. destruct (fd_card fd); try discriminate.
    destruct (populate_go f sc idx _ (r1 :: rest) values) as [sub'|] eqn:P; [|discriminate]. injection H as <-.
    rewrite !lookup_path_cons2. rewrite mget_mset_same.
    rewrite (IH _ _ _ _ _ _ (q :: r2) P I).
    destruct (mget (fd_name fd) m) as [[v|s|l|l]|]; try (apply lookup_path_nil_msg; discriminate). reflexivity.
  - assert (Hne : fd_name fd <> n2) by (intros e; rewrite e, bytes_eqb_refl in E; discriminate).
    apply lookup_path_head.
    destruct rest as [|r1 rest].
    + destruct (set_final_shape _ _ _ _ _ _ H) as [v ->]. apply mget_mset_other. exact Hne.
    + destruct (fd_kind fd) as [k|idx]; [discriminate|]. destruct (fd_card fd); try discriminate.
      destruct (populate_go f sc idx _ (r1 :: rest) values) as [sub'|]; [|discriminate]. injection H as <-.
      rewrite (mget_mset_other _ _ _ _ Hne). apply mget_clear_oneof. apply Bool.negb_true_iff. exact I.
Qed.

(* the field a path addresses (proto or JSON names), with its proto-name path *)
Fixpoint resolve (fuel : nat) (sc : schema) (mi : nat) (path : list bytes) : option (list bytes * fdesc) :=
  match fuel, path with
  | S f, name :: rest =>
      match find_field name (fields_of sc mi) with
      | None => None
      | Some fd =>
          match rest with
          | [] => Some ([fd_name fd], fd)
          | _ => match fd_kind fd, fd_card fd with
                 | FMsg idx, CSingle => match resolve f sc idx rest with Some (np, g) => Some (fd_name fd :: np, g) | None => None end
                 | _, _ => None
                 end
          end
      end
  | _, _ => None
  end.

Lemma resolve_nonempty fuel : forall sc mi path np fd, resolve fuel sc mi path = Some (np, fd) -> np <> [].
Proof.
  destruct fuel; intros sc mi path np fd H; [discriminate|]. destruct path as [|name rest]; [discriminate|]. cbn [resolve] in H.
  destruct (find_field name _) as [g|]; [|discriminate]. destruct rest.
  - injection H as <- _. discriminate.
  - destruct (fd_kind g); [discriminate|]. destruct (fd_card g); try discriminate. destruct (resolve _ _ _ _) as [[np' g']|]; [|discriminate].
    injection H as <- _. discriminate.
Qed.

(* a successful population of a singular scalar field stores exactly the parsed text there *)
Lemma populate_sets fuel : forall sc mi m path v m' np fd k,
  populate_go fuel sc mi m path [v] = Ok m' -> resolve fuel sc mi path = Some (np, fd) ->
  fd_card fd = CSingle -> fd_kind fd = FScalar k ->
  exists x, parse_scalar k v = Ok x /\ lookup_path m' np = Some (MS x).
Proof.
  induction fuel as [|f IH]; intros sc mi m path v m' np fd k H R C K; [discriminate|].
  destruct path as [|name rest]; [discriminate|]. cbn [populate_go] in H. cbn [resolve] in R.
  destruct (find_field name (fields_of sc mi)) as [g|] eqn:F; [|discriminate].
  destruct rest as [|r1 rest].
  - injection R as <- <-. unfold set_final in H. destruct (negb (Z.eqb (fd_oneof g) 0) && _); [discriminate|].
    rewrite C in H. rewrite K in H. cbn [parse_field] in H. destruct (parse_scalar k v) as [x|]; [|discriminate]. injection H as <-.
    exists x. split; [reflexivity|]. cbn [lookup_path]. apply mget_mset_same.
  - destruct (fd_kind g) as [?|idx]; [discriminate|]. destruct (fd_card g); try discriminate.
    destruct (resolve f sc idx (r1 :: rest)) as [[np' g']|] eqn:R'; [|discriminate]. injection R as <- <-.
    destruct (populate_go f sc idx _ (r1 :: rest) [v]) as [sub'|] eqn:P; [|discriminate]. injection H as <-.
    destruct (IH _ _ _ _ _ _ _ _ _ P R' C K) as (x & Px & L). exists x. split; [exact Px|].
    pose proof (resolve_nonempty _ _ _ _ _ _ R') as NE.
    destruct np' as [|a b]; [contradiction|]. rewrite lookup_path_cons2, mget_mset_same. exact L.
Qed.

(* ---------- the query filter ---------- *)
Lemma is_prefix_spec s p : is_prefix s p = true <-> exists t, p = s ++ t.
Proof.
  revert p; induction s as [|a s IH]; intros p; cbn [is_prefix].
  - split; [intros _; exists p; reflexivity|reflexivity].
  - destruct p as [|b p]; [split; [discriminate|intros [t E]; discriminate]|].
    rewrite Bool.andb_true_iff, bytes_eqb_eq, IH. split.
    + intros [-> [t ->]]. exists t. reflexivity.
    + intros [t E]. injection E as -> ->. split; [reflexivity|exists t; reflexivity].
Qed.
Lemma filter_spec seqs p : has_common_prefix seqs p = true <-> exists s t, In s seqs /\ p = s ++ t.
Proof.
  unfold has_common_prefix. rewrite existsb_exists. split.
  - intros (s & Hin & Hp). apply is_prefix_spec in Hp. destruct Hp as [t ->]. exists s, t. split; [exact Hin|reflexivity].
  - intros (s & t & Hin & ->). exists s. split; [exact Hin|]. apply is_prefix_spec. exists t. reflexivity.
Qed.

(* the path a query key addresses *)
Definition query_path (sc : schema) (kv : bytes * list bytes) : list bytes :=
  normalize sc (split_dot (match bracket_split (fst kv) with Some (k, _) => k | None => fst kv end)).

Lemma query_step_cases sc seqs m kv m' : query_step sc seqs m kv = Ok m' ->
  (has_common_prefix seqs (query_path sc kv) = true /\ m' = m) \/
  (has_common_prefix seqs (query_path sc kv) = false /\ exists values, populate sc m (query_path sc kv) values = Ok m').
Proof.
  unfold query_step, query_path. destruct (bracket_split (fst kv)) as [[k sub]|];
    match goal with |- context [has_common_prefix seqs ?p] => destruct (has_common_prefix seqs p) eqn:F end; intros H.
  - left. injection H as <-. split; reflexivity.
  - right. split; [reflexivity|eexists; exact H].
  - left. injection H as <-. split; reflexivity.
  - right. split; [reflexivity|eexists; exact H].
Qed.

(* a query parameter addressing something bound by the body or a path variable is ignored *)
Lemma bound_key_ignored sc seqs m kv : has_common_prefix seqs (query_path sc kv) = true -> query_step sc seqs m kv = Ok m.
Proof.
  unfold query_step, query_path. destruct (bracket_split (fst kv)) as [[k sub]|]; intros H; rewrite H; reflexivity.
Qed.

Lemma populate_frame_top sc m path values m' p :
  populate sc m path values = Ok m' -> indep (length path) sc O path p = true -> lookup_path m' p = lookup_path m p.
Proof. unfold populate. destruct values; [discriminate|]. apply populate_frame. Qed.

(* the whole query phase leaves a field path alone unless some accepted parameter can reach it *)
Lemma query_phase_frame sc seqs : forall q m m' p,
  fold_res (query_step sc seqs) q m = Ok m' ->
  (forall kv, In kv q -> has_common_prefix seqs (query_path sc kv) = true \/ indep (length (query_path sc kv)) sc O (query_path sc kv) p = true) ->
  lookup_path m' p = lookup_path m p.
Proof.
  induction q as [|kv q IH]; intros m m' p H A; cbn [fold_res] in H; [injection H as <-; reflexivity|].
  destruct (query_step sc seqs m kv) as [m1|] eqn:S; [|discriminate].
  rewrite (IH _ _ _ H (fun kv' Hin => A kv' (or_intror Hin))).
  destruct (query_step_cases _ _ _ _ _ S) as [[_ ->]|[Fn [values P]]]; [reflexivity|].
  destruct (A kv (or_introl eq_refl)) as [Fb|I]; [rewrite Fb in Fn; discriminate|].
  exact (populate_frame_top _ _ _ _ _ _ P I).
Qed.

(* ---------- the phases ---------- *)
Lemma fold_res_app {A B} (f : A -> B -> res A) l1 l2 a :
  fold_res f (l1 ++ l2) a = match fold_res f l1 a with Ok a' => fold_res f l2 a' | Err => Err end.
Proof. revert a; induction l1 as [|b l1 IH]; intros a; cbn [fold_res app]; [reflexivity|]. destruct (f a b); [apply IH|reflexivity]. Qed.

Definition param_step (sc : schema) (m : msg) (p : bytes * bytes) : res msg := populate sc m (split_dot (fst p)) [snd p].

Lemma params_phase_frame sc : forall l m m' np,
  fold_res (param_step sc) l m = Ok m' ->
  (forall p, In p l -> indep (length (split_dot (fst p))) sc O (split_dot (fst p)) np = true) ->
  lookup_path m' np = lookup_path m np.
Proof.
  induction l as [|p l IH]; intros m m' np H A; cbn [fold_res] in H; [injection H as <-; reflexivity|].
  destruct (param_step sc m p) as [m1|] eqn:S; [|discriminate].
  rewrite (IH _ _ _ H (fun p' Hin => A p' (or_intror Hin))).
  exact (populate_frame_top _ _ _ _ _ _ S (A p (or_introl eq_refl))).
Qed.

Lemma transcode_unfold sc bp params q body :
  transcode sc bp params q body =
  match body_phase sc bp body with
  | Fail c => Fail c
  | Done m0 => match fold_res (param_step sc) params m0 with
               | Err => Fail 3
               | Ok m1 => if bytes_eqb bp s_star then Done m1
                          else match fold_res (query_step sc (filter_seqs bp params)) q m1 with Ok m2 => Done m2 | Err => Fail 3 end
               end
  end.
Proof. reflexivity. Qed.

(* path variables take priority: the value written by a path variable into a singular scalar field is what the target
   receives, whatever the body and the query say, as long as no LATER path variable and no accepted query parameter
   addresses the same place (the filter makes the query parameters for bound fields "not accepted") *)
Lemma path_param_wins sc bp l1 k v l2 q body m np fd kd :
  transcode sc bp (l1 ++ (k, v) :: l2) q body = Done m ->
  resolve (length (split_dot k)) sc O (split_dot k) = Some (np, fd) -> fd_card fd = CSingle -> fd_kind fd = FScalar kd ->
  (forall p, In p l2 -> indep (length (split_dot (fst p))) sc O (split_dot (fst p)) np = true) ->
  (forall kv, In kv q -> has_common_prefix (filter_seqs bp (l1 ++ (k, v) :: l2)) (query_path sc kv) = true
                        \/ indep (length (query_path sc kv)) sc O (query_path sc kv) np = true) ->
  exists x, parse_scalar kd v = Ok x /\ lookup_path m np = Some (MS x).
Proof.
  intros T R C K A2 AQ. rewrite transcode_unfold in T.
  destruct (body_phase sc bp body) as [m0|]; [|discriminate].
  rewrite fold_res_app in T. destruct (fold_res (param_step sc) l1 m0) as [ma|]; [|discriminate].
  cbn [fold_res] in T. destruct (param_step sc ma (k, v)) as [mb|] eqn:S; [|discriminate].
  unfold param_step, populate in S. cbn [fst snd] in S.
  destruct (populate_sets _ _ _ _ _ _ _ _ _ _ S R C K) as (x & Px & L).
  exists x. split; [exact Px|].
  destruct (fold_res (param_step sc) l2 mb) as [m1|] eqn:F2; [|discriminate].
  pose proof (params_phase_frame _ _ _ _ _ F2 A2) as E1.
  destruct (bytes_eqb bp s_star).
  - injection T as <-. rewrite E1. exact L.
  - destruct (fold_res (query_step sc _) q m1) as [m2|] eqn:FQ; [|discriminate]. injection T as <-.
    rewrite (query_phase_frame _ _ _ _ _ _ FQ AQ), E1. exact L.
Qed.

(* with body "*" the query is not looked at *)
Lemma star_ignores_query sc params q body : transcode sc s_star params q body = transcode sc s_star params [] body.
Proof.
  rewrite !transcode_unfold. destruct (body_phase sc s_star body) as [m0|]; [|reflexivity].
  destruct (fold_res (param_step sc) params m0); [|reflexivity]. rewrite bytes_eqb_refl. reflexivity.
Qed.

(* values that do not parse yield InvalidArgument; Internal only for a body path that does not resolve *)
Lemma transcode_codes sc bp params q body c : transcode sc bp params q body = Fail c ->
  c = 3 \/ (c = 13 /\ bp <> [] /\ bp <> s_star /\ traverse (length (split_dot bp)) sc O (split_dot bp) = None).
Proof.
  rewrite transcode_unfold. destruct (body_phase sc bp body) as [m0|c0] eqn:B.
  - destruct (fold_res (param_step sc) params m0) as [m1|]; [|intros E; injection E as <-; left; reflexivity].
    destruct (bytes_eqb bp s_star); [discriminate|]. destruct (fold_res _ q m1); [discriminate|]. intros E; injection E as <-. left; reflexivity.
  - intros E; injection E as <-. unfold body_phase in B. destruct bp as [|b0 bp']; [discriminate|]. cbn beta iota in B.
    destruct (bytes_eqb (b0 :: bp') s_star) eqn:S.
    + destruct body as [j|]; [|discriminate]. destruct (decode_msg _ _ _ _); [discriminate|]. injection B as <-. left; reflexivity.
    + destruct (traverse _ sc O (split_dot (b0 :: bp'))) as [[[chain mi] fd]|] eqn:T.
      * destruct (at_chain _ _ _); [discriminate|]. injection B as <-. left; reflexivity.
      * injection B as <-. right. split; [reflexivity|]. split; [discriminate|]. split; [|reflexivity].
        intros e. rewrite e, bytes_eqb_refl in S. discriminate.
Qed.

(* ---------- text forms ---------- *)
Definition dec_text (s : bytes) (z : Z) : Prop :=
  exists ds, ds <> [] /\ forallb is_digit ds = true /\
    ((s = ds /\ z = digits_Z 0 ds) \/ (s = 43%N :: ds /\ z = digits_Z 0 ds) \/ (s = 45%N :: ds /\ z = - digits_Z 0 ds)).

Lemma parse_dec_signed_spec s z : parse_dec_signed s = Some z -> dec_text s z.
Proof.
  unfold parse_dec_signed, dec_text. destruct s as [|c r]; [discriminate|].
  destruct (N.eqb_spec c 45) as [->|n45].
  - destruct r as [|d r']; [discriminate|]. destruct (all_digits_b (d :: r')) eqn:A; [|discriminate]. intros E; injection E as <-.
    exists (d :: r'). split; [discriminate|]. split; [exact A|]. right; right. split; reflexivity.
  - destruct (N.eqb_spec c 43) as [->|n43].
    + destruct r as [|d r']; [discriminate|]. destruct (all_digits_b (d :: r')) eqn:A; [|discriminate]. intros E; injection E as <-.
      exists (d :: r'). split; [discriminate|]. split; [exact A|]. right; left. split; reflexivity.
    + destruct (all_digits_b (c :: r)) eqn:A; [|discriminate]. intros E; injection E as <-.
      exists (c :: r). split; [discriminate|]. split; [exact A|]. left. split; reflexivity.
Qed.

(* integers from text: exactly the decimal number written, and in the field's range: no truncation, no wrap-around *)
Lemma parse_int_exact k s v : is_int_kind k = true -> parse_int_kind k s = Ok v ->
  exists z, v = FInt z /\ in_range k z = true /\ dec_text s z.
Proof.
  intros K. unfold parse_int_kind.
  assert (U : forall z, parse_dec_unsigned s = Some z -> dec_text s z).
  { unfold parse_dec_unsigned, dec_text. intros z. destruct s as [|c r]; [discriminate|]. destruct (all_digits_b (c :: r)) eqn:A; [|discriminate].
    intros E; injection E as <-. exists (c :: r). split; [discriminate|]. split; [exact A|]. left; split; reflexivity. }
  destruct k; try discriminate; cbv beta iota.
  all: match goal with |- context [match ?p with Some _ => _ | None => _ end] => destruct p as [z|] eqn:P end; try discriminate.
  all: destruct (in_range _ z) eqn:R; try discriminate; intros E; injection E as <-; exists z; split; [reflexivity|]; split; [exact R|].
  all: try (apply parse_dec_signed_spec; exact P). all: exact (U z eq_refl).
Qed.

(* enums from text: a defined value, by its name or by its exact decimal number *)
Lemma lookup_name_in s names z : lookup_name s names = Some z -> In z (map snd names).
Proof.
  induction names as [|[k v] r IH]; [discriminate|]. cbn [lookup_name map snd]. destruct (bytes_eqb s k).
  - intros E; injection E as <-. left; reflexivity.
  - intros H. right. exact (IH H).
Qed.
Lemma parse_enum_exact names s v : parse_enum names s = Ok v ->
  exists z, v = FEnum z /\ In z (map snd names) /\ (lookup_name s names = Some z \/ dec_text s z).
Proof.
  unfold parse_enum. destruct (lookup_name s names) as [z|] eqn:L.
  - intros E; injection E as <-. exists z. split; [reflexivity|]. split; [exact (lookup_name_in _ _ _ L)|left; reflexivity].
  - destruct (parse_dec_signed s) as [z|] eqn:P; [|discriminate].
    destruct ((-2147483648 <=? z) && (z <=? 2147483647) && existsb (fun e => Z.eqb (snd e) z) names) eqn:C; [|discriminate].
    intros E; injection E as <-. exists z. split; [reflexivity|]. apply Bool.andb_true_iff in C. destruct C as [_ C].
    apply existsb_exists in C. destruct C as ([k w] & Hin & Hw). cbn [snd] in Hw. apply Z.eqb_eq in Hw. subst w.
    split; [apply in_map_iff; exists (k, z); split; [reflexivity|exact Hin]|right; exact (parse_dec_signed_spec _ _ P)].
Qed.

(* the enum parser before the repair: 4294967297 was accepted as the value 1 *)
Definition bz (l : list Z) : bytes := map Z.to_N l.
Lemma parse_enum_old_refuted :
  let names := [(bz [79;78;69], 1)] in
  let s := bz [52;50;57;52;57;54;55;50;57;55] in
  parse_enum_old names s = Ok (FEnum 1) /\ parse_enum names s = Err.
Proof. vm_compute. split; reflexivity. Qed.

(* non-vacuity: a concrete request on a two-message schema *)
Definition ex_schema : schema :=
  [ {| md_wkt := 0; md_fields := [ {| fd_name := bz [105]; fd_json := bz [105]; fd_kind := FScalar KInt32; fd_card := CSingle; fd_oneof := 0; fd_pres := false |};
                                  {| fd_name := bz [110]; fd_json := bz [110]; fd_kind := FMsg 1; fd_card := CSingle; fd_oneof := 0; fd_pres := true |};
                                  {| fd_name := bz [115]; fd_json := bz [115]; fd_kind := FScalar KString; fd_card := CSingle; fd_oneof := 0; fd_pres := false |} ] |};
    {| md_wkt := 0; md_fields := [ {| fd_name := bz [120]; fd_json := bz [120]; fd_kind := FScalar KInt32; fd_card := CSingle; fd_oneof := 0; fd_pres := false |} ] |} ].
(* body "s" = "b", path n.x = 7, query i=3 & n.x=9 & s=q : i from the query, n.x from the path, s from the body *)
Example ex_precedence :
  transcode ex_schema (bz [115]) [(bz [110;46;120], bz [55])] [(bz [105], [bz [51]]); (bz [110;46;120], [bz [57]]); (bz [115], [bz [113]])] (Some (JStr (bz [98])))
  = Done [(bz [115], MS (FStr (bz [98]))); (bz [110], MM [(bz [120], MS (FInt 7))]); (bz [105], MS (FInt 3))].
Proof. vm_compute. reflexivity. Qed.
