From GB Require Import Model.StreamFrame.
From Coq Require Import Lia.
Open Scope N_scope.

Lemma split_acc_nolf : forall j cur rest,
  no_lf j = true ->
  split_lines_acc cur (j ++ 10 :: rest) = let '(ls, r) := split_lines_acc [] rest in ((rev cur ++ j) :: ls, r).
Proof.
  induction j as [|c j IH]; intros cur rest H.
  - simpl. destruct (split_lines_acc [] rest). rewrite app_nil_r. reflexivity.
  - simpl in H. apply andb_prop in H as [Hc Hj]. apply negb_true_iff in Hc.
    simpl. rewrite Hc. rewrite (IH (c :: cur) rest Hj).
    destruct (split_lines_acc [] rest). simpl. rewrite <- app_assoc. reflexivity.
Qed.

(* NDJSON: the stream of any list of LF-free payloads splits back into exactly those records, nothing left over *)
Theorem ndjson_records js : forallb no_lf js = true -> split_lines (concat (map enc_line js)) = (js, []).
Proof.
  unfold split_lines. induction js as [|j js IH]; intros H; [reflexivity|].
  simpl in H. apply andb_prop in H as [Hj Hjs].
  cbn [map concat]. unfold enc_line at 1. rewrite <- app_assoc. cbn [app].
  rewrite (split_acc_nolf j [] _ Hj). rewrite (IH Hjs). reflexivity.
Qed.

(* a payload with a raw LF breaks the framing: this is why the JSON encoder must never emit one (F15) *)
Theorem ndjson_lf_breaks : exists j, split_lines (enc_line j) <> ([j], []).
Proof. exists [91; 10; 93]. vm_compute. discriminate. Qed.

Lemma prefix_data l : prefix_b s_data (s_data ++ l) = true.
Proof. reflexivity. Qed.

Lemma split_event j rest : no_lf j = true ->
  split_lines_acc [] (enc_event j ++ rest) =
  let '(ls, r) := split_lines_acc [] rest in ((s_data ++ j) :: [] :: ls, r).
Proof.
  intros H. unfold enc_event. rewrite <- !app_assoc. cbn [app].
  assert (H2 : no_lf (s_data ++ j) = true) by (unfold no_lf in *; rewrite forallb_app, H; reflexivity).
  replace (s_data ++ j ++ 10 :: 10 :: rest) with ((s_data ++ j) ++ 10 :: 10 :: rest) by (rewrite <- app_assoc; reflexivity).
  rewrite (split_acc_nolf (s_data ++ j) [] _ H2). cbn [rev app].
  simpl. destruct (split_lines_acc [] rest). reflexivity.
Qed.

Theorem sse_records js : forallb no_lf js = true -> split_events (concat (map enc_event js)) = Some js.
Proof.
  unfold split_events, split_lines.
  assert (G : forall js, forallb no_lf js = true ->
            exists ls, split_lines_acc [] (concat (map enc_event js)) = (ls, []) /\ events_of_lines ls = Some js).
  { induction js0 as [|j js0 IH]; intros H; [exists []; split; reflexivity|].
    simpl in H. apply andb_prop in H as [Hj Hjs]. destruct (IH Hjs) as (ls & E1 & E2).
    cbn [map concat]. rewrite (split_event j _ Hj), E1.
    exists ((s_data ++ j) :: [] :: ls). split; [reflexivity|].
    cbn [events_of_lines]. rewrite prefix_data, E2. reflexivity. }
  intros H. destruct (G js H) as (ls & E1 & E2). rewrite E1. exact E2.
Qed.

(* whitespace stripping only removes bytes outside strings, and is idempotent *)
Lemma strip_false_b s b : strip_ws_go false b s = strip_ws_go false false s.
Proof. destruct s; reflexivity. Qed.

Lemma strip_go_idem : forall s a b, strip_ws_go a b (strip_ws_go a b s) = strip_ws_go a b s.
Proof.
  induction s as [|c s IH]; intros a b; [reflexivity|]. cbn [strip_ws_go].
  destruct a.
  - destruct b; [cbn [strip_ws_go]; f_equal; apply IH|].
    destruct (c =? 92) eqn:E1; [cbn [strip_ws_go]; rewrite E1; f_equal; apply IH|].
    destruct (c =? 34) eqn:E2; cbn [strip_ws_go]; rewrite E1, E2; f_equal; apply IH.
  - destruct ((c =? 32) || (c =? 9) || (c =? 10) || (c =? 13)) eqn:W.
    + rewrite strip_false_b. apply IH.
    + destruct (c =? 34) eqn:E2; cbn [strip_ws_go]; rewrite W, E2; f_equal; apply IH.
Qed.
Theorem strip_ws_idempotent s : strip_ws (strip_ws s) = strip_ws s.
Proof. apply strip_go_idem. Qed.

(* WebSocket: one-to-one for client-streaming methods; only the first frame otherwise *)
Theorem ws_one_to_one ps : ws_requests true true (map (fun p => (true, p)) ps) = WsOk ps.
Proof. unfold ws_requests. induction ps as [|p ps IH]; [reflexivity|]. simpl. rewrite IH. reflexivity. Qed.

Theorem ws_only_first p rest : ws_requests false true ((true, p) :: rest) = WsOk [p].
Proof. reflexivity. Qed.

Theorem ws_wrong_type_refused ps p rest :
  ws_requests true true (map (fun p => (true, p)) ps ++ (false, p) :: rest) = WsWrongType ps.
Proof. unfold ws_requests. induction ps as [|q ps IH]; [reflexivity|]. simpl. rewrite IH. reflexivity. Qed.

Theorem ws_close_codes_canonical : Extracted.ws_close_codes = [1000; 1001; 1003]%Z.
Proof. reflexivity. Qed.

Theorem ws_close_spec outcome : ws_close 0 false = 1000%Z /\ ws_close outcome true = 1003%Z /\ (outcome <> 0%Z -> ws_close outcome false = 1001%Z).
Proof. repeat split. intros H. unfold ws_close. destruct (Z.eqb_spec outcome 0); [contradiction | reflexivity]. Qed.

(* ---- the reason of the close frame: at most 123 bytes, a prefix of the full reason, never cut inside a character ---- *)
Lemma rune_cut_le : forall n s, (rune_cut n s <= n)%nat.
Proof. induction n as [|m IH]; intros s; cbn [rune_cut]; [lia|]. destruct (is_cont (nth (S m) s 0%N)); [specialize (IH s); lia | lia]. Qed.

Lemma rune_cut_start : forall n s, rune_cut n s = O \/ is_cont (nth (rune_cut n s) s 0%N) = false.
Proof.
  induction n as [|m IH]; intros s; cbn [rune_cut]; [left; reflexivity|].
  destruct (is_cont (nth (S m) s 0%N)) eqn:E; [apply IH | right; exact E].
Qed.

Lemma hd_skipn : forall k (s : bytes), hd 0%N (skipn k s) = nth k s 0%N.
Proof. induction k as [|k IH]; intros s; destruct s as [|a s]; try reflexivity. cbn [skipn nth]. apply IH. Qed.

Theorem truncate_reason_spec : forall s,
  (length (truncate_reason s) <= max_reason)%nat /\
  (exists rest, s = truncate_reason s ++ rest /\
     (rest = [] \/ truncate_reason s = [] \/ is_cont (hd 0%N rest) = false)).
Proof.
  intros s. unfold truncate_reason. destruct (Nat.leb_spec (length s) max_reason) as [L|L].
  - split; [exact L|]. exists []. rewrite app_nil_r. auto.
  - pose proof (rune_cut_le max_reason s) as C. split.
    + rewrite firstn_length. apply Nat.le_trans with (rune_cut max_reason s); [apply Nat.le_min_l | exact C].
    + exists (skipn (rune_cut max_reason s) s). split; [symmetry; apply firstn_skipn|].
      destruct (rune_cut_start max_reason s) as [Z|S].
      * right. left. rewrite Z. reflexivity.
      * right. right. rewrite hd_skipn. exact S.
Qed.

(* a long reason of two-byte characters: the cut backs up to the character boundary (122 bytes, not 123) *)
Example truncate_two_byte : length (truncate_reason (concat (repeat [195; 169]%N 70))) = 122%nat.
Proof. vm_compute. reflexivity. Qed.

(* the limit is the one in the source (regenerated on every run) *)
Lemma max_reason_source : max_reason = Extracted.ws_max_reason.
Proof. reflexivity. Qed.
