(* F33 stated on the transition system of Model/WebWrite.v: the code as it is has a run that ends with a data frame behind the
   trailer, written after the handler returned (the witness is the schedule the C08 part slowwriter forces on the real
   bridge); with the write lock and the finished flag every run gives data frames followed by one trailer and no late write. *)
From Coq Require Import List Bool ZArith Lia.
From GB Require Import Model.WebWrite.
Import ListNotations.
Open Scope Z_scope.

(* the slowwriter schedule: the first response is in flight, the request fails, the handler finishes, the client takes the frame *)
Definition f33_schedule : list wact := [PumpSend; WriterBegin; ReqFails; PumpAbandon; HandlerTrailer; HandlerReturn; WriterEnd].

Theorem abandoned_send_refuted : exists s, wrun false f33_schedule w_init = Some s /\
  log s = [1; 0] /\ frames_ok (log s) = false /\ late s = 1%nat /\ returned s = true.
Proof. eexists. split; [vm_compute; reflexivity|]. repeat split. Qed.

(* the same schedule under the repaired discipline is not a run: the trailer has to wait for the write in progress *)
Example locked_blocks_the_witness : wrun true f33_schedule w_init = None.
Proof. vm_compute. reflexivity. Qed.

(* ---- the repaired discipline: invariant over all runs ---- *)
Definition all_data (l : list Z) : Prop := Forall (fun k => k = 0) l.
Definition winv (s : wst) : Prop :=
  late s = O /\
  (trailer s = false -> all_data (log s) /\ returned s = false) /\
  (trailer s = true -> exists d, all_data d /\ log s = d ++ [1]) /\
  (wbusy s = true -> trailer s = false).

Lemma winv_init : winv w_init.
Proof. unfold winv, w_init, all_data; cbn. repeat split; try discriminate; auto. Qed.

Ltac inv_some H := injection H as <-; unfold winv; cbn [late trailer returned log wbusy].

Lemma winv_step s a s' : winv s -> wstep true s a = Some s' -> winv s'.
Proof.
  intros (L & NT & T & B) H. destruct a; cbn [wstep] in H.
  - (* PumpSend *) destruct (negb (sending s) && negb (pump_done s) && negb (pending s) && negb (wbusy s)); [|discriminate].
    inv_some H. exact (conj L (conj NT (conj T B))).
  - (* WriterBegin *) destruct (pending s && negb (wbusy s)); [|discriminate]. cbn [andb] in H. destruct (trailer s) eqn:TS.
    + inv_some H. split; [exact L|]. split; [intros X; discriminate X|]. split; [intros _; exact (T eq_refl)|]. intros X; discriminate X.
    + inv_some H. split; [exact L|]. split; [intros _; exact (NT eq_refl)|]. split; [intros X; discriminate X|]. intros _; reflexivity.
  - (* WriterEnd *) destruct (wbusy s) eqn:WB; [|discriminate]. pose proof (B eq_refl) as TF. destruct (NT TF) as [AD RF].
    rewrite RF in H. inv_some H. split; [exact L|]. split; [|split].
    + intros _. split; [|reflexivity]. unfold all_data in *. apply Forall_app. split; [exact AD | constructor; [reflexivity | constructor]].
    + intros X. rewrite TF in X. discriminate X.
    + intros X; discriminate X.
  - (* SendReturns *) destruct (sending s && negb (pending s) && negb (wbusy s)); [|discriminate]. inv_some H. exact (conj L (conj NT (conj T (fun X : false = true => False_ind _ (Bool.diff_false_true X))))).
  - (* ReqFails *) inv_some H. exact (conj L (conj NT (conj T B))).
  - (* PumpAbandon *) destruct (sending s && ctx_done s); [|discriminate]. inv_some H. exact (conj L (conj NT (conj T B))).
  - (* PumpExit *) destruct (negb (sending s) && ctx_done s); [|discriminate]. inv_some H. exact (conj L (conj NT (conj T B))).
  - (* HandlerTrailer *) destruct (pump_done s); [|discriminate]. destruct (trailer s) eqn:TS; [discriminate|]. cbn [negb andb] in H.
    destruct (wbusy s) eqn:WB; [discriminate|]. destruct (NT eq_refl) as [AD RF]. inv_some H. split; [exact L|]. split; [|split].
    + intros X; discriminate X.
    + intros _. exists (log s). split; [exact AD | reflexivity].
    + intros X; discriminate X.
  - (* HandlerReturn *) destruct (trailer s) eqn:TS; [|discriminate]. destruct (returned s); [discriminate|]. cbn [negb andb] in H.
    inv_some H. split; [exact L|]. split; [intros X; discriminate X|]. split; [intros _; exact (T eq_refl)|]. exact B.
Qed.

Theorem locked_runs_ok : forall l s, wrun true l w_init = Some s ->
  late s = O /\ (trailer s = true -> frames_ok (log s) = true) /\ (trailer s = false -> returned s = false).
Proof.
  assert (G : forall l s0 s, winv s0 -> wrun true l s0 = Some s -> winv s).
  { induction l as [|a l IH]; intros s0 s I H; cbn [wrun] in H; [injection H as <-; exact I|].
    destruct (wstep true s0 a) as [s1|] eqn:E; [|discriminate]. exact (IH s1 s (winv_step s0 a s1 I E) H). }
  intros l s H. destruct (G l w_init s winv_init H) as (L & NT & T & _). split; [exact L|]. split; [|intros X; exact (proj2 (NT X))].
  intros X. destruct (T X) as (d & AD & ->). clear -AD. induction d as [|k d IH]; [reflexivity|].
  inversion AD as [|? ? K AD']; subst. specialize (IH AD'). cbn [app frames_ok]. destruct (d ++ [1]) eqn:E; [destruct d; discriminate|]. cbn [Z.eqb andb]. exact IH.
Qed.
