(* C20 / C03: the tables that tools/extract_tables REGENERATES from the template code on every run
   (Gen/Extracted.v: the tokenizers' delimiter sets per state, the path-character marks of both literal checkers, the
   end-of-input marker) are the ones the hand-written model uses.  A change of one of those tables in the source changes
   Extracted.v and breaks these lemmas (the differential runs then look for a string that shows the difference). *)
From Coq Require Import NArith List Bool Lia.
From GB Require Import Gen.Extracted Model.Template.
Import ListNotations.
Open Scope N_scope.

Lemma strict_delims_model : forall st c, (st < 3)%nat -> is_delim st c = existsb (N.eqb c) (nth st strict_delims []).
Proof.
  intros st c L. destruct st as [|[|[|st]]]; [| | |exfalso; lia];
    cbn [is_delim nth strict_delims existsb]; unfold c_slash, c_lbrace, c_dot, c_eq, c_rbrace; rewrite ?orb_false_r, ?orb_assoc; reflexivity.
Qed.
Lemma gw_delims_model : forall st c, (st < 3)%nat -> is_delim st c = existsb (N.eqb c) (nth st gw_delims []).
Proof.
  intros st c L. destruct st as [|[|[|st]]]; [| | |exfalso; lia];
    cbn [is_delim nth gw_delims existsb]; unfold c_slash, c_lbrace, c_dot, c_eq, c_rbrace; rewrite ?orb_false_r, ?orb_assoc; reflexivity.
Qed.
Lemma strict_pchar_model : forall c, is_pchar_plain c = is_alpha c || is_digit c || existsb (N.eqb c) strict_pchar_marks.
Proof. reflexivity. Qed.
Lemma gw_pchar_model : forall c, is_pchar_plain c = is_alpha c || is_digit c || existsb (N.eqb c) gw_pchar_marks.
Proof. reflexivity. Qed.
Lemma eof_model : eof = strict_eof /\ eof = gw_eof.
Proof. split; reflexivity. Qed.
