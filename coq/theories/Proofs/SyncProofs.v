(* C18 proofs: the synchronisation discipline of the routers' update / close / lookup protocol (the LTS of Model/RouteConc.v):
   the table mutex is held by at most one thread, exactly while that thread is between the two phases of an update; the
   per-watcher mutex result is part of the C11 invariant (RouteConcProofs.Inv: i_held, i_le).  For every kind of router,
   every set of threads and every interleaving. *)
From Coq Require Import Lia List Bool Arith.
From GB Require Import Model.RouteConc Proofs.RouteConcProofs.
Import ListNotations.

Definition in_cs (t : thr) : bool := match t with TUpd _ _ _ 2 => true | _ => false end.
Definition cs_count (ts : list thr) : nat := length (filter in_cs ts).

Lemma cs_replace ts i t t' : nth_error ts i = Some t ->
  (cs_count (replace_nth i t' ts) + (if in_cs t then 1 else 0) = cs_count ts + (if in_cs t' then 1 else 0))%nat.
Proof.
  unfold cs_count. revert i. induction ts as [|a ts IH]; intros [|i] H; simpl in *; try discriminate.
  - injection H as ->. destruct (in_cs t), (in_cs t'); simpl; lia.
  - specialize (IH i H). destruct (in_cs a); simpl; lia.
Qed.

Definition mutex_inv (s : cstate) : Prop := cs_count (threads s) = if tmu s then 1%nat else 0%nat.

Lemma threads_set_threads s ts : threads (set_threads s ts) = ts. Proof. reflexivity. Qed.
Lemma tmu_set_threads s ts : tmu (set_threads s ts) = tmu s. Proof. reflexivity. Qed.

(* one step preserves the invariant *)
Lemma mutex_step s i s' : mutex_inv s -> In (i, s') (cnext s) -> mutex_inv s'.
Proof.
  unfold mutex_inv. intros I H. destruct (cnext_inv _ _ _ H) as (t & t' & s1 & N & E & ->).
  rewrite threads_set_threads, tmu_set_threads. pose proof (cs_replace _ _ _ t' N) as R.
  destruct t as [w n d pc|w n pc|q res|w n res]; cbn [thr_step] in E.
  - destruct pc as [|[|[|pc]]].
    + (* start: closed check and lock *)
      destruct (negb (mem_nat w (live s))); [discriminate|]. destruct (negb (can_lock w s)); [discriminate|].
      destruct (mem_nat w (closedw s)); injection E as <- <-; cbn [in_cs] in R; cbn [tmu lock]; lia.
    + (* table mutation: needs the table mutex free *)
      destruct (tmu s) eqn:T; [discriminate|]. destruct (kind s).
      * injection E as <- <-. cbn [in_cs] in R. cbn [tmu unlock upd_pattern]. rewrite T. lia.
      * injection E as <- <-. cbn [in_cs] in R. cbn [tmu set_tmu]. lia.
    + (* second phase: this thread is the one inside *)
      injection E as <- <-. cbn [in_cs] in R. cbn [tmu set_tmu]. destruct (tmu s); lia.
    + discriminate.
  - destruct pc as [|[|pc]]; try discriminate.
    + destruct (negb (mem_nat w (live s))); [discriminate|]. destruct (mem_nat w (closedw s)); injection E as <- <-; cbn [in_cs] in R; cbn [tmu]; lia.
    + destruct (can_lock w s && negb (tmu s)); [|discriminate]. injection E as <- <-. cbn [in_cs] in R.
      unfold remove_all. destruct (kind s); [|destruct (hand_over _ _ _ _ _)]; cbn [tmu]; lia.
  - destruct res; [discriminate|]. injection E as <- <-. cbn [in_cs] in R. lia.
  - destruct res; [discriminate|]. destruct (mem_b n (watched s)); injection E as <- <-; cbn [in_cs] in R; cbn [tmu]; lia.
Qed.

(* every reachable state: at most one thread is between the phases of an update, and exactly then the mutex is held *)
Theorem table_mutex_exclusive s0 s : mutex_inv s0 -> CReach s0 s -> mutex_inv s.
Proof. intros I R. induction R as [|s i s' R IH H]; [exact I|exact (mutex_step _ _ _ IH H)]. Qed.

Corollary at_most_one_in_critical_section s0 s : mutex_inv s0 -> CReach s0 s -> (cs_count (threads s) <= 1)%nat.
Proof. intros I R. pose proof (table_mutex_exclusive _ _ I R) as M. unfold mutex_inv in M. destruct (tmu s); lia. Qed.

(* no thread enters a table mutation while another is inside: the step that mutates is disabled *)
Corollary mutation_excluded s0 s w n d : mutex_inv s0 -> CReach s0 s -> (1 <= cs_count (threads s))%nat -> thr_step (TUpd w n d 1) s = None.
Proof.
  intros I R C. pose proof (table_mutex_exclusive _ _ I R) as M. unfold mutex_inv in M. cbn [thr_step].
  destruct (tmu s); [reflexivity|lia].
Qed.
Corollary removal_excluded s0 s w n : mutex_inv s0 -> CReach s0 s -> (1 <= cs_count (threads s))%nat -> thr_step (TClose w n 1) s = None.
Proof.
  intros I R C. pose proof (table_mutex_exclusive _ _ I R) as M. unfold mutex_inv in M. cbn [thr_step].
  destruct (tmu s); [rewrite andb_false_r; reflexivity|lia].
Qed.

(* the initial states of the protocol satisfy it *)
Lemma init_mutex_inv k mx live0 watched0 ts : cs_count ts = 0%nat -> mutex_inv (cinit k mx live0 watched0 ts).
Proof. intros H. unfold mutex_inv, cinit. cbn [threads tmu]. exact H. Qed.

Example init_ok : mutex_inv (cinit KService true [0%nat] [[116%N]] [TUpd 0 [116%N] {| cd_id := 1; cd_svcs := [[115%N]] |} 0; TClose 0 [116%N] 0; TLook [115%N] None]).
Proof. reflexivity. Qed.
