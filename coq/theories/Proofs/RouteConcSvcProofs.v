(* C11 for the SERVICE router: the same interleaving model (Model/RouteConc.v, kind = KService, two-phase updateRoutes
   under the table mutex, handOver on release) - no lookup is ever routed to an entry applied through a watcher whose
   Close has executed its removal, under every interleaving. *)
From GB Require Import Model.RouteConc Proofs.RouteConcProofs.
From Coq Require Import Lia.
Open Scope Z_scope.

Definition is_p2 (t : thr) : bool := match t with TUpd _ _ _ 2 => true | _ => false end.
Definition np2 (ts : list thr) : nat := length (filter is_p2 ts).

Lemma np2_replace ts i t t' : nth_error ts i = Some t ->
  (np2 (replace_nth i t' ts) + (if is_p2 t then 1 else 0) = np2 ts + (if is_p2 t' then 1 else 0))%nat.
Proof.
  unfold np2. revert i. induction ts as [|a ts IH]; intros [|i] H; simpl in *; try discriminate.
  - injection H as ->. destruct (is_p2 t), (is_p2 t'); simpl; lia.
  - specialize (IH i H). destruct (is_p2 a); simpl; lia.
Qed.

Lemma np2_zero ts : np2 ts = 0%nat -> forall w n d, ~ In (TUpd w n d 2) ts.
Proof.
  unfold np2. induction ts as [|a ts IH]; intros Z w n d I; [destruct I|]. simpl in Z.
  destruct I as [->|I]; [simpl in Z; discriminate|]. destruct (is_p2 a); [discriminate|]. eapply IH; eauto.
Qed.

Lemma In_replace_keep {A} (l : list A) i t t' x : nth_error l i = Some t -> In x l -> x <> t -> In x (replace_nth i t' l).
Proof.
  revert i. induction l as [|a l IH]; intros [|i] N I D; simpl in *; try discriminate.
  - injection N as ->. destruct I as [->|I]; [congruence | right; exact I].
  - destruct I as [->|I]; [left; reflexivity | right; eapply IH; eauto].
Qed.

(* ---- association lists ---- *)
Lemma beq_sym' a b : bytes_eqb a b = bytes_eqb b a.
Proof.
  destruct (bytes_eqb a b) eqn:E, (bytes_eqb b a) eqn:F; auto.
  - apply bytes_eqb_true in E; subst; rewrite bytes_eqb_rfl in F; discriminate.
  - apply bytes_eqb_true in F; subst; rewrite bytes_eqb_rfl in E; discriminate.
Qed.
Lemma a_get_del {A} k k' (l : list (bytes * A)) : a_get k (a_del k' l) = if bytes_eqb k k' then None else a_get k l.
Proof.
  destruct (bytes_eqb k k') eqn:E.
  - apply bytes_eqb_true in E. subst. apply a_get_del_same.
  - apply a_get_del_other. intros ->. rewrite bytes_eqb_rfl in E. discriminate.
Qed.
Lemma a_get_set {A} k k' (v : A) l : a_get k (a_set k' v l) = if bytes_eqb k k' then Some v else a_get k l.
Proof. unfold a_set. cbn [a_get]. rewrite a_get_del. destruct (bytes_eqb k k'); reflexivity. Qed.
Lemma a_get_fold_del {A} released : forall (t : list (bytes * A)) k,
  a_get k (fold_left (fun t sv => a_del sv t) released t) = if mem_b k released then None else a_get k t.
Proof.
  induction released as [|a r IH]; intros t k; [reflexivity|]. cbn [fold_left]. rewrite IH, a_get_del.
  unfold mem_b. cbn [existsb]. destruct (bytes_eqb k a); cbn [orb]; destruct (existsb (bytes_eqb k) r); reflexivity.
Qed.
Lemma a_get_In {A} k (v : A) l : a_get k l = Some v -> In (k, v) l.
Proof.
  induction l as [|[k' v'] l IH]; cbn [a_get]; [discriminate|]. destruct (bytes_eqb k k') eqn:E.
  - intros H. injection H as ->. apply bytes_eqb_true in E. subst. left. reflexivity.
  - intros H. right. apply IH, H.
Qed.
Lemma In_a_del {A} k (v : A) k' l : In (k, v) (a_del k' l) -> In (k, v) l /\ k <> k'.
Proof.
  unfold a_del. intros H. apply filter_In in H as [H1 H2]. split; [exact H1|]. cbn in H2.
  intros ->. rewrite bytes_eqb_rfl in H2. discriminate.
Qed.
Lemma In_a_insert {A} (x kv : bytes * A) : forall l, In x (a_insert kv l) -> x = kv \/ In x l.
Proof.
  induction l as [|kv' l IH]; cbn [a_insert]; [intros [H|[]]; auto|].
  destruct (bytes_leb (fst kv) (fst kv')); cbn [In]; [intros [H|H]; auto|].
  intros [H|H]; [auto|]. destruct (IH H); auto.
Qed.
Lemma mem_b_In k l : mem_b k l = true <-> In k l.
Proof.
  unfold mem_b. rewrite existsb_exists. split.
  - intros (x & I & E). apply bytes_eqb_true in E. subst. exact I.
  - intros I. exists k. split; [exact I | apply bytes_eqb_rfl].
Qed.

Definition claims_of (n : bytes) (c : list (bytes * list bytes)) : list bytes :=
  match a_get n c with Some l => l | None => [] end.
Lemma claims_of_append m n svc c : claims_of m (c_append n svc c) = if bytes_eqb m n then claims_of m c ++ [svc] else claims_of m c.
Proof.
  unfold claims_of. induction c as [|[k v] c IH]; cbn [c_append a_get].
  - destruct (bytes_eqb m n); reflexivity.
  - destruct (bytes_eqb n k) eqn:E; cbn [a_get].
    + apply bytes_eqb_true in E. subst k. destruct (bytes_eqb m n); reflexivity.
    + destruct (bytes_eqb m k) eqn:E2; [|exact IH].
      apply bytes_eqb_true in E2. subst k. rewrite beq_sym' in E. rewrite E. reflexivity.
Qed.
Lemma claims_of_set m n l c : claims_of m (a_set n l c) = if bytes_eqb m n then l else claims_of m c.
Proof. unfold claims_of. rewrite a_get_set. destruct (bytes_eqb m n); reflexivity. Qed.
Lemma claims_of_del m n c : claims_of m (a_del n c) = if bytes_eqb m n then [] else claims_of m c.
Proof. unfold claims_of. rewrite a_get_del. destruct (bytes_eqb m n); reflexivity. Qed.

Notation entry := (bytes * Z * nat)%type.

Lemma claim_phase_get n id w : forall svcs (t : list (bytes * entry)) cl svc e,
  a_get svc (fst (claim_phase n id w svcs t cl)) = Some e ->
  a_get svc t = Some e \/ (e = (n, id, w) /\ mem_b svc svcs = true).
Proof.
  induction svcs as [|s r IH]; intros t cl svc e H; [left; exact H|]. cbn [claim_phase] in H.
  assert (K : a_get svc (fst (claim_phase n id w r (a_set s (n, id, w) t) (cl ++ [s]))) = Some e ->
              a_get svc t = Some e \/ e = (n, id, w) /\ mem_b svc (s :: r) = true).
  { intros H'. apply IH in H' as [H'|[H1 H2]].
    - rewrite a_get_set in H'. destruct (bytes_eqb svc s) eqn:E; [|left; exact H'].
      injection H' as <-. right. split; [reflexivity|]. unfold mem_b. cbn [existsb]. rewrite E. reflexivity.
    - right. split; [exact H1|]. unfold mem_b in *. cbn [existsb]. rewrite H2. apply orb_true_r. }
  revert H. destruct (a_get s t) as [[[n' id'] w']|]; [|exact K].
  destruct (bytes_eqb n' n); [exact K|]. intros H.
  apply IH in H as [H|[H1 H2]]; [left; exact H|]. right. split; [exact H1|]. unfold mem_b in *. cbn [existsb]. rewrite H2. apply orb_true_r.
Qed.

Fixpoint first_lister_in svc (cands : list (bytes * (cdesc * nat))) n id w {struct cands} :
  first_lister svc cands = Some (n, id, w) -> exists d, In (n, (d, w)) cands /\ id = cd_id d.
Proof.
  destruct cands as [|[n0 [d0 w0]] cands]; cbn [first_lister]; [discriminate|].
  destruct (mem_b svc (cd_svcs d0)).
  - intros H. injection H as <- <- <-. exists d0. split; [left; reflexivity | reflexivity].
  - intros H. destruct (first_lister_in svc cands n id w H) as (d & I & E). exists d. split; [right; exact I | exact E].
Qed.

Definition ho_f (by_ : bytes) (ds : list (bytes * (cdesc * nat))) :=
  fun (tc : list (bytes * entry) * list (bytes * list bytes)) (svc : bytes) =>
    match first_lister svc (a_del by_ ds) with
    | Some (n, id, w) => match a_get svc (fst tc) with
                         | None => (a_set svc (n, id, w) (fst tc), c_append n svc (snd tc))
                         | Some _ => tc
                         end
    | None => tc
    end.
Lemma hand_over_eq released by_ t c ds : hand_over released by_ t c ds = fold_left (ho_f by_ ds) released (t, c).
Proof. reflexivity. Qed.

Lemma ho_f_mono by_ ds tc svc0 m svc : In svc (claims_of m (snd tc)) -> In svc (claims_of m (snd (ho_f by_ ds tc svc0))).
Proof.
  unfold ho_f. destruct (first_lister svc0 (a_del by_ ds)) as [[[n id] w]|]; [|auto].
  destruct (a_get svc0 (fst tc)); [auto|]. cbn [snd]. intros H. rewrite claims_of_append.
  destruct (bytes_eqb m n); [apply in_or_app; left; exact H | exact H].
Qed.
Lemma ho_mono by_ ds : forall released tc m svc,
  In svc (claims_of m (snd tc)) -> In svc (claims_of m (snd (fold_left (ho_f by_ ds) released tc))).
Proof. induction released as [|s r IH]; intros tc m svc H; [exact H|]. cbn [fold_left]. apply IH, ho_f_mono, H. Qed.

Lemma ho_get by_ ds : forall released tc svc e,
  a_get svc (fst (fold_left (ho_f by_ ds) released tc)) = Some e ->
  a_get svc (fst tc) = Some e \/
  (first_lister svc (a_del by_ ds) = Some e /\ In svc (claims_of (fst (fst e)) (snd (fold_left (ho_f by_ ds) released tc)))).
Proof.
  induction released as [|s r IH]; intros tc svc e H; [left; exact H|]. cbn [fold_left] in *.
  apply IH in H as [H|H]; [|right; exact H].
  unfold ho_f in H |- *. destruct (first_lister s (a_del by_ ds)) as [[[n id] w]|] eqn:FL; [|left; exact H].
  destruct (a_get s (fst tc)) eqn:G; [left; exact H|]. cbn [fst snd] in *.
  rewrite a_get_set in H. destruct (bytes_eqb svc s) eqn:E; [|left; exact H].
  injection H as <-. apply bytes_eqb_true in E. subst s. right. split; [exact FL|].
  apply ho_mono. cbn [fst snd]. rewrite claims_of_append, bytes_eqb_rfl. apply in_or_app. right. left. reflexivity.
Qed.

Lemma nh_pos ts w t : In t ts -> is_holder w t = true -> (1 <= nh ts w)%nat.
Proof.
  unfold nh. induction ts as [|a ts IH]; intros I H; [destruct I|]. simpl. destruct I as [->|I].
  - rewrite H. simpl. lia.
  - specialize (IH I H). destruct (is_holder w a); simpl; lia.
Qed.

Lemma thr_eq_dec_p2 w' n' (d' : cdesc) w n d : TUpd w' n' d' 2 = TUpd w n d 2 \/ TUpd w' n' d' 2 <> TUpd w n d 2.
Proof.
  destruct (Nat.eq_dec w' w) as [->|]; [|right; congruence].
  destruct (list_eq_dec N.eq_dec n' n) as [->|]; [|right; congruence].
  destruct d' as [i' l'], d as [i0 l0].
  destruct (Z.eq_dec i' i0) as [->|]; [|right; congruence].
  destruct (list_eq_dec (list_eq_dec N.eq_dec) l' l0) as [->|]; [left; reflexivity | right; congruence].
Qed.

Section ServiceInv.
  Variable name : nat -> bytes.
  Notation wf_thr := (wf_thr name).

  Record MxInv (s : cstate) : Prop := {
    m_kind : kind s = KService; m_mx : wmutex s = true;
    m_wf : forall t, In t (threads s) -> wf_thr t;
    m_held : forall w, mem_nat w (held s) = true <-> nh (threads s) w = 1%nat;
    m_le : forall w, (nh (threads s) w <= 1)%nat;
    m_hold_live : forall w, (1 <= nh (threads s) w)%nat -> mem_nat w (removed s) = false;
    m_rem_closed : forall w, mem_nat w (removed s) = true -> mem_nat w (closedw s) = true;
    m_closing : forall w n, In (TClose w n 1) (threads s) -> mem_nat w (closedw s) = true;
    m_tmu : np2 (threads s) = (if tmu s then 1 else 0)%nat;
    m_pcs : forall w n d pc, In (TUpd w n d pc) (threads s) -> (3 <= pc)%nat -> pc = 9%nat
  }.

  Local Arguments nh : simpl never.
  Local Arguments np2 : simpl never.
  Local Arguments mem_nat : simpl never.
  Local Arguments a_get : simpl never.

  Ltac nhr N w0 t' := let R := fresh "R" in pose proof (nh_replace _ _ _ t' w0 N) as R; cbn [is_holder] in R;
                      rewrite ?andb_false_r, ?Nat.eqb_refl in R; cbn [andb orb Nat.eqb] in R.
  Ltac npr N t' := let R2 := fresh "R2" in pose proof (np2_replace _ _ _ t' N) as R2; cbn [is_p2] in R2.

  (* the table operations leave the control fields alone *)
  Lemma add_ctl w n d s : let s' := fst (upd_service_add w n d s) in
    kind s' = kind s /\ wmutex s' = wmutex s /\ live s' = live s /\ closedw s' = closedw s /\ removed s' = removed s /\
    held s' = held s /\ tmu s' = tmu s /\ threads s' = threads s /\ watched s' = watched s /\
    sclaims s' = sclaims s /\ sdescs s' = sdescs s /\ ptab s' = ptab s /\
    stab s' = fst (claim_phase n (cd_id d) w (cd_svcs d) (stab s) []).
  Proof. unfold upd_service_add. destruct (claim_phase n (cd_id d) w (cd_svcs d) (stab s) []) as [t1 c1]. cbn. repeat split. Qed.

  Lemma del_ctl w n d s : let s' := upd_service_del w n d s in
    kind s' = kind s /\ wmutex s' = wmutex s /\ live s' = live s /\ closedw s' = closedw s /\ removed s' = removed s /\
    held s' = held s /\ tmu s' = tmu s /\ threads s' = threads s /\ watched s' = watched s.
  Proof. unfold upd_service_del. destruct (hand_over _ _ _ _ _) as [t3 c3]. cbn. repeat split. Qed.

  Lemma rem_ctl w n s : let s' := remove_all w n s in
    kind s' = kind s /\ wmutex s' = wmutex s /\ live s' = live s /\ closedw s' = closedw s /\ removed s' = w :: removed s /\
    held s' = held s /\ tmu s' = tmu s /\ threads s' = threads s.
  Proof. unfold remove_all. destruct (match kind s with KService => _ | KPattern => _ end) as [t3 c3]. cbn. repeat split. Qed.

  Lemma mx_step s i s' : MxInv s -> In (i, s') (cnext s) -> MxInv s'.
  Proof.
    intros [K MX WF HE LE HL RC CL TM PC] H.
    apply cnext_inv in H as (t & t' & s1 & N & E & ->).
    assert (It : In t (threads s)) by (eapply nth_error_In; eauto).
    pose proof (WF t It) as Wt.
    assert (WF' : forall t'', wf_thr t'' -> forall t0, In t0 (replace_nth i t'' (threads s)) -> wf_thr t0).
    { intros t'' W t0 I0. apply In_replace in I0 as [->|I0]; auto. }
    destruct t as [w n d pc|w n pc|q r|w n r]; simpl in E.
    - destruct pc as [|[|[|pc]]]; try discriminate.
      + destruct (mem_nat w (live s)); [|discriminate]. cbn [negb] in E.
        unfold can_lock in E. rewrite MX in E. cbn [negb orb] in E.
        destruct (mem_nat w (held s)) eqn:Hw; [discriminate|]. cbn [negb] in E.
        assert (Z0 : nh (threads s) w = 0%nat).
        { pose proof (LE w). destruct (nh (threads s) w) as [|[|k]] eqn:Q; [reflexivity | | lia].
          assert (mem_nat w (held s) = true) by (apply HE; exact Q). congruence. }
        destruct (mem_nat w (closedw s)) eqn:Cw; injection E as <- <-.
        * refine (Build_MxInv _ _ _ _ _ _ _ _ _ _ _); cbn [kind wmutex threads held removed closedw tmu set_threads]; auto.
          -- apply WF'. exact Wt.
          -- intros w0. nhr N w0 (TUpd w n d 9). split; intros X; [apply HE in X | apply HE]; lia.
          -- intros w0. nhr N w0 (TUpd w n d 9). specialize (LE w0). lia.
          -- intros w0 G. nhr N w0 (TUpd w n d 9). apply HL. lia.
          -- intros w0 n0 I0. apply In_replace in I0 as [I0|I0]; [discriminate | eauto].
          -- npr N (TUpd w n d 9). lia.
          -- intros w0 n0 d0 pc0 I0 G. apply In_replace in I0 as [I0|I0]; [injection I0 as -> -> -> ->; reflexivity | eauto].
        * refine (Build_MxInv _ _ _ _ _ _ _ _ _ _ _); unfold lock; rewrite MX; cbn [kind wmutex threads held removed closedw tmu set_threads]; auto.
          -- apply WF'. exact Wt.
          -- intros w0. nhr N w0 (TUpd w n d 1). rewrite mem_nat_cons.
             destruct (Nat.eqb_spec w0 w) as [Ew|Nw]; [subst w0|].
             ++ rewrite Nat.eqb_refl in R. cbn [andb orb] in R. cbn [orb]. split; [intros _; lia | reflexivity].
             ++ destruct (Nat.eqb_spec w w0); [congruence|]. cbn [andb orb] in R. cbn [orb]. split; intros X; [apply HE in X | apply HE]; lia.
          -- intros w0. nhr N w0 (TUpd w n d 1).
             destruct (Nat.eqb_spec w w0) as [Ew|Nw]; [subst w0|]; cbn [andb orb] in R; [lia | specialize (LE w0); lia].
          -- intros w0 G. nhr N w0 (TUpd w n d 1).
             destruct (Nat.eqb_spec w w0) as [Ew|Nw]; [subst w0|]; cbn [andb orb] in R.
             ++ destruct (mem_nat w (removed s)) eqn:Rw; [|reflexivity]. rewrite (RC w Rw) in Cw. discriminate.
             ++ apply HL. lia.
          -- intros w0 n0 I0. apply In_replace in I0 as [I0|I0]; [discriminate | eauto].
          -- npr N (TUpd w n d 1). lia.
          -- intros w0 n0 d0 pc0 I0 G. apply In_replace in I0 as [I0|I0]; [injection I0 as -> -> -> ->; lia | eauto].
      + (* pc 1: phase one, takes the table mutex *)
        destruct (tmu s) eqn:TMU; [discriminate|]. rewrite K in E. injection E as <- <-.
        destruct (add_ctl w n d s) as (A1 & A2 & A3 & A4 & A5 & A6 & A7 & A8 & _).
        refine (Build_MxInv _ _ _ _ _ _ _ _ _ _ _); unfold set_tmu; cbn [kind wmutex threads held removed closedw tmu set_threads];
          rewrite ?A1, ?A2, ?A3, ?A4, ?A5, ?A6, ?A7, ?A8; auto.
        * apply WF'. exact Wt.
        * intros w0. nhr N w0 (TUpd w n d 2). destruct (Nat.eqb_spec w w0); cbn [andb orb] in R; split; intros X; [apply HE in X | apply HE | apply HE in X | apply HE]; lia.
        * intros w0. nhr N w0 (TUpd w n d 2). destruct (Nat.eqb_spec w w0); cbn [andb orb] in R; specialize (LE w0); lia.
        * intros w0 G. nhr N w0 (TUpd w n d 2). destruct (Nat.eqb_spec w w0); cbn [andb orb] in R; apply HL; lia.
        * intros w0 n0 I0. apply In_replace in I0 as [I0|I0]; [discriminate | eauto].
        * npr N (TUpd w n d 2). lia.
        * intros w0 n0 d0 pc0 I0 G. apply In_replace in I0 as [I0|I0]; [injection I0 as -> -> -> ->; lia | eauto].
      + (* pc 2: phase two, releases both mutexes *)
        injection E as <- <-.
        destruct (del_ctl w n d s) as (A1 & A2 & A3 & A4 & A5 & A6 & A7 & A8 & _).
        pose proof (nh_replace (threads s) i _ (TUpd w n d 9) w N) as Rw. cbn [is_holder] in Rw. rewrite Nat.eqb_refl in Rw. cbn [andb orb Nat.eqb] in Rw.
        assert (H1 : nh (threads s) w = 1%nat) by (specialize (LE w); lia).
        refine (Build_MxInv _ _ _ _ _ _ _ _ _ _ _); unfold set_tmu, unlock; cbn [kind wmutex threads held removed closedw tmu set_threads];
          rewrite ?A1, ?A2, ?A3, ?A4, ?A5, ?A6, ?A7, ?A8; auto.
        * apply WF'. exact Wt.
        * intros w0. rewrite mem_nat_filter_neq. nhr N w0 (TUpd w n d 9).
          destruct (Nat.eqb_spec w0 w) as [Ew|Nw]; [subst w0|]; cbn [negb andb].
          -- split; [discriminate | intros X; lia].
          -- destruct (Nat.eqb_spec w w0); [congruence|]. cbn [andb orb] in R. split; intros X; [apply HE in X | apply HE]; lia.
        * intros w0. nhr N w0 (TUpd w n d 9). destruct (Nat.eqb_spec w w0); cbn [andb orb] in R; specialize (LE w0); lia.
        * intros w0 G. nhr N w0 (TUpd w n d 9).
          destruct (Nat.eqb_spec w w0) as [Ew|Nw]; [subst w0|]; cbn [andb orb] in R; [lia | apply HL; lia].
        * intros w0 n0 I0. apply In_replace in I0 as [I0|I0]; [discriminate | eauto].
        * npr N (TUpd w n d 9). destruct (tmu s); lia.
        * intros w0 n0 d0 pc0 I0 G. apply In_replace in I0 as [I0|I0]; [injection I0 as -> -> -> ->; reflexivity | eauto].
    - destruct pc as [|[|pc]]; try discriminate.
      + destruct (mem_nat w (live s)); [|discriminate]. cbn [negb] in E.
        destruct (mem_nat w (closedw s)) eqn:Cw; injection E as <- <-.
        * refine (Build_MxInv _ _ _ _ _ _ _ _ _ _ _); cbn [kind wmutex threads held removed closedw tmu set_threads]; auto.
          -- apply WF'. exact Wt.
          -- intros w0. nhr N w0 (TClose w n 8). split; intros X; [apply HE in X | apply HE]; lia.
          -- intros w0. nhr N w0 (TClose w n 8). specialize (LE w0). lia.
          -- intros w0 G. nhr N w0 (TClose w n 8). apply HL. lia.
          -- intros w0 n0 I0. apply In_replace in I0 as [I0|I0]; [discriminate | eauto].
          -- npr N (TClose w n 8). lia.
          -- intros w0 n0 d0 pc0 I0 G. apply In_replace in I0 as [I0|I0]; [discriminate | eauto].
        * refine (Build_MxInv _ _ _ _ _ _ _ _ _ _ _); cbn [kind wmutex threads held removed closedw tmu set_threads]; auto.
          -- apply WF'. exact Wt.
          -- intros w0. nhr N w0 (TClose w n 1). split; intros X; [apply HE in X | apply HE]; lia.
          -- intros w0. nhr N w0 (TClose w n 1). specialize (LE w0). lia.
          -- intros w0 G. nhr N w0 (TClose w n 1). apply HL. lia.
          -- intros w0 Rw. rewrite mem_nat_cons. rewrite (RC w0 Rw). apply orb_true_r.
          -- intros w0 n0 I0. rewrite mem_nat_cons. apply In_replace in I0 as [I0|I0].
             ++ injection I0 as <- <-. rewrite Nat.eqb_refl. reflexivity.
             ++ rewrite (CL w0 n0 I0). apply orb_true_r.
          -- npr N (TClose w n 1). lia.
          -- intros w0 n0 d0 pc0 I0 G. apply In_replace in I0 as [I0|I0]; [discriminate | eauto].
      + unfold can_lock in E. rewrite MX in E. cbn [negb orb] in E.
        destruct (mem_nat w (held s)) eqn:Hw; [discriminate|]. cbn [negb andb] in E.
        destruct (tmu s) eqn:TMU; [discriminate|]. cbn [negb] in E. injection E as <- <-.
        assert (Z0 : nh (threads s) w = 0%nat).
        { pose proof (LE w). destruct (nh (threads s) w) as [|[|k]] eqn:Q; [reflexivity | | lia].
          assert (mem_nat w (held s) = true) by (apply HE; exact Q). congruence. }
        destruct (rem_ctl w n s) as (A1 & A2 & A3 & A4 & A5 & A6 & A7 & A8).
        refine (Build_MxInv _ _ _ _ _ _ _ _ _ _ _); cbn [kind wmutex threads held removed closedw tmu set_threads];
          rewrite ?A1, ?A2, ?A3, ?A4, ?A5, ?A6, ?A7, ?A8; auto.
        * apply WF'. exact Wt.
        * intros w0. nhr N w0 (TClose w n 9). split; intros X; [apply HE in X | apply HE]; lia.
        * intros w0. nhr N w0 (TClose w n 9). specialize (LE w0). lia.
        * intros w0 G. nhr N w0 (TClose w n 9). rewrite mem_nat_cons.
          destruct (Nat.eqb_spec w0 w) as [Ew|Nw]; [subst w0; lia|]. cbn [orb]. apply HL. lia.
        * intros w0 Rw. rewrite mem_nat_cons in Rw. destruct (Nat.eqb_spec w0 w) as [Ew|Nw]; [subst w0; eapply CL; exact It | apply RC; exact Rw].
        * intros w0 n0 I0. apply In_replace in I0 as [I0|I0]; [discriminate | eauto].
        * npr N (TClose w n 9). rewrite TMU in *. lia.
        * intros w0 n0 d0 pc0 I0 G. apply In_replace in I0 as [I0|I0]; [discriminate | eauto].
    - destruct r; [discriminate|]. injection E as <- <-.
      refine (Build_MxInv _ _ _ _ _ _ _ _ _ _ _); cbn [kind wmutex threads held removed closedw tmu set_threads]; auto.
      + apply WF'. exact I.
      + intros w0. nhr N w0 (TLook q (Some (lookup q s))). split; intros X; [apply HE in X | apply HE]; lia.
      + intros w0. nhr N w0 (TLook q (Some (lookup q s))). specialize (LE w0). lia.
      + intros w0 G. nhr N w0 (TLook q (Some (lookup q s))). apply HL. lia.
      + intros w0 n0 I0. apply In_replace in I0 as [I0|I0]; [discriminate | eauto].
      + npr N (TLook q (Some (lookup q s))). lia.
      + intros w0 n0 d0 pc0 I0 G. apply In_replace in I0 as [I0|I0]; [discriminate | eauto].
    - destruct r; [discriminate|].
      destruct (mem_b n (watched s)); injection E as <- <-;
      (refine (Build_MxInv _ _ _ _ _ _ _ _ _ _ _); cbn [kind wmutex threads held removed closedw tmu set_threads]; auto;
       [ apply WF'; exact I
       | intros w0; match goal with |- context[TWatch w n (Some ?b)] => nhr N w0 (TWatch w n (Some b)) end; split; intros X; [apply HE in X | apply HE]; lia
       | intros w0; match goal with |- context[TWatch w n (Some ?b)] => nhr N w0 (TWatch w n (Some b)) end; specialize (LE w0); lia
       | intros w0 G; match goal with G : context[TWatch w n (Some ?b)] |- _ => nhr N w0 (TWatch w n (Some b)) end; apply HL; lia
       | intros w0 n0 I0; apply In_replace in I0 as [I0|I0]; [discriminate | eauto]
       | match goal with |- context[TWatch w n (Some ?b)] => npr N (TWatch w n (Some b)) end; lia
       | intros w0 n0 d0 pc0 I0 G; apply In_replace in I0 as [I0|I0]; [discriminate | eauto] ]).
  Qed.

  (* ---- the tables ---- *)
  Record TbInv (s : cstate) : Prop := {
    t_tab : forall svc n id w, a_get svc (stab s) = Some (n, id, w) -> mem_nat w (removed s) = false /\ n = name w;
    t_ds : forall n d w, In (n, (d, w)) (sdescs s) -> mem_nat w (removed s) = false /\ n = name w;
    t_claims : forall svc n id w, a_get svc (stab s) = Some (n, id, w) ->
       In svc (claims_of n (sclaims s)) \/ (exists w' d, In (TUpd w' n d 2) (threads s) /\ mem_b svc (cd_svcs d) = true)
  }.

  (* a step that changes neither the tables nor [removed], taken by a thread that is not in phase two *)
  Lemma tb_frame s i t t' s1 : TbInv s -> nth_error (threads s) i = Some t -> is_p2 t = false ->
    stab s1 = stab s -> sdescs s1 = sdescs s -> sclaims s1 = sclaims s -> removed s1 = removed s ->
    TbInv (set_threads s1 (replace_nth i t' (threads s))).
  Proof.
    intros [T D C] N P E1 E2 E3 E4. constructor; cbn [set_threads stab sdescs sclaims removed threads]; rewrite ?E1, ?E2, ?E3, ?E4; auto.
    intros svc n id w G. destruct (C svc n id w G) as [H|(w' & d & I & M)]; [left; exact H|].
    right. exists w', d. split; [|exact M]. eapply In_replace_keep; eauto. intros <-. discriminate.
  Qed.

  Lemma held_by_spec n d t svc : mem_b svc (held_by n d t) = true <->
    mem_b svc (cd_svcs d) = true /\ (exists id w, a_get svc t = Some (n, id, w)).
  Proof.
    unfold held_by. rewrite !mem_b_In, filter_In. split; intros [H1 H2]; (split; [exact H1|]).
    - destruct (a_get svc t) as [[[n' id] w]|]; [|discriminate]. apply bytes_eqb_true in H2. subst. eauto.
    - destruct H2 as (id & w & ->). apply bytes_eqb_rfl.
  Qed.

  Lemma tb_step s i s' : MxInv s -> TbInv s -> In (i, s') (cnext s) -> TbInv s'.
  Proof.
    intros MI TI H. pose proof MI as [K MX WF HE LE HL RC CL TM PC]. pose proof TI as [T D C].
    apply cnext_inv in H as (t & t' & s1 & N & E & ->).
    assert (It : In t (threads s)) by (eapply nth_error_In; eauto).
    pose proof (WF t It) as Wt.
    destruct t as [w n d pc|w n pc|q r|w n r]; simpl in E.
    - destruct pc as [|[|[|pc]]]; try discriminate.
      + destruct (mem_nat w (live s)); [|discriminate]. cbn [negb] in E.
        destruct (negb (can_lock w s)); [discriminate|].
        destruct (mem_nat w (closedw s)); injection E as <- <-; eapply tb_frame; eauto.
      + (* phase one *)
        destruct (tmu s) eqn:TMU; [discriminate|]. rewrite K in E. injection E as <- <-.
        destruct (add_ctl w n d s) as (A1 & A2 & A3 & A4 & A5 & A6 & A7 & A8 & A9 & A10 & A11 & A12 & A13).
        assert (Hw : mem_nat w (removed s) = false).
        { apply HL. eapply nh_pos; [exact It|]. cbn [is_holder]. rewrite Nat.eqb_refl. reflexivity. }
        constructor; unfold set_tmu; cbn [set_threads stab sdescs sclaims removed threads]; rewrite ?A5, ?A10, ?A11, ?A13.
        * intros svc n0 id0 w0 G. apply claim_phase_get in G as [G|[G _]]; [eauto|]. injection G as -> -> ->. split; [exact Hw | exact Wt].
        * exact D.
        * intros svc n0 id0 w0 G. apply claim_phase_get in G as [G|[G M]].
          -- destruct (C svc n0 id0 w0 G) as [H|(w' & d' & I & _)]; [left; exact H|].
             exfalso. eapply np2_zero; eauto.
          -- injection G as -> -> ->. right. exists w, d. split; [|exact M].
             apply nth_error_In with (n := i). apply nth_replace_same. apply nth_error_Some. congruence.
      + (* phase two *)
        injection E as <- <-.
        assert (Hw : mem_nat w (removed s) = false).
        { apply HL. eapply nh_pos; [exact It|]. cbn [is_holder]. rewrite Nat.eqb_refl. reflexivity. }
        assert (ONLY : forall w' n' d', In (TUpd w' n' d' 2) (threads s) -> TUpd w' n' d' 2 = TUpd w n d 2).
        { intros w' n' d' I'. destruct (thr_eq_dec_p2 w' n' d' w n d) as [->|NE]; [reflexivity|]. exfalso.
          assert (I2 : In (TUpd w' n' d' 2) (replace_nth i (TUpd w n d 9) (threads s))) by (eapply In_replace_keep; eauto).
          pose proof (np2_replace _ _ _ (TUpd w n d 9) N) as R2. cbn [is_p2] in R2.
          assert (np2 (threads s) <= 1)%nat by (rewrite TM; destruct (tmu s); lia).
          assert (Z0 : np2 (replace_nth i (TUpd w n d 9) (threads s)) = 0%nat) by lia.
          eapply np2_zero; eauto. }
        unfold upd_service_del. rewrite hand_over_eq.
        set (claimed := held_by n d (stab s)).
        set (old := match a_get n (sclaims s) with Some l => l | None => [] end).
        set (outdated := filter (fun sv => negb (mem_b sv claimed)) old).
        set (t2 := fold_left (fun t sv => a_del sv t) outdated (stab s)).
        set (ds' := a_set_sorted n (d, w) (sdescs s)).
        destruct (fold_left (ho_f n ds') outdated (t2, a_set n claimed (sclaims s))) as [t3 c3] eqn:HO.
        assert (D' : forall n0 d0 w0, In (n0, (d0, w0)) ds' -> mem_nat w0 (removed s) = false /\ n0 = name w0).
        { intros n0 d0 w0 I0. unfold ds', a_set_sorted in I0. apply In_a_insert in I0 as [I0|I0].
          - injection I0 as -> -> ->. split; [exact Hw | exact Wt].
          - apply In_a_del in I0 as [I0 _]. eauto. }
        constructor; unfold set_tmu, unlock; cbn [set_threads stab sdescs sclaims removed threads].
        * intros svc n0 id0 w0 G.
          pose proof (ho_get n ds' outdated (t2, a_set n claimed (sclaims s)) svc (n0, id0, w0)) as HG. rewrite HO in HG. cbn [fst snd] in HG.
          destruct (HG G) as [G2|[FL _]].
          -- unfold t2 in G2. rewrite a_get_fold_del in G2. destruct (mem_b svc outdated); [discriminate | eauto].
          -- apply first_lister_in in FL as (d0 & I0 & _). apply In_a_del in I0 as [I0 _]. eauto.
        * exact D'.
        * intros svc n0 id0 w0 G. left.
          pose proof (ho_get n ds' outdated (t2, a_set n claimed (sclaims s)) svc (n0, id0, w0)) as HG. rewrite HO in HG. cbn [fst snd] in HG.
          destruct (HG G) as [G2|[_ IC]]; [|exact IC].
          unfold t2 in G2. rewrite a_get_fold_del in G2. destruct (mem_b svc outdated) eqn:MO; [discriminate|].
          pose proof (ho_mono n ds' outdated (t2, a_set n claimed (sclaims s)) n0 svc) as HM. rewrite HO in HM. cbn [snd] in HM. apply HM.
          rewrite claims_of_set. destruct (bytes_eqb n0 n) eqn:En.
          -- apply bytes_eqb_true in En. subst n0.
             destruct (mem_b svc (cd_svcs d)) eqn:Md.
             ++ apply mem_b_In, held_by_spec. split; [exact Md | eauto].
             ++ exfalso. destruct (C svc n id0 w0 G2) as [H|(w' & d' & I' & M')].
                ** assert (MC : mem_b svc claimed = false).
                   { destruct (mem_b svc claimed) eqn:X; [|reflexivity]. apply held_by_spec in X as [X _]. congruence. }
                   assert (In svc outdated) by (unfold outdated; apply filter_In; split; [exact H | rewrite MC; reflexivity]).
                   apply mem_b_In in H0. congruence.
                ** apply ONLY in I'. inversion I'; subst. congruence.
          -- destruct (C svc n0 id0 w0 G2) as [H|(w' & d' & I' & M')]; [exact H|].
             apply ONLY in I'. inversion I'; subst. rewrite bytes_eqb_rfl in En. discriminate.
    - destruct pc as [|[|pc]]; try discriminate.
      + destruct (mem_nat w (live s)); [|discriminate]. cbn [negb] in E.
        destruct (mem_nat w (closedw s)); injection E as <- <-; eapply tb_frame; eauto.
      + (* removal *)
        unfold can_lock in E. rewrite MX in E. cbn [negb orb] in E.
        destruct (mem_nat w (held s)) eqn:Hw; [discriminate|]. cbn [negb andb] in E.
        destruct (tmu s) eqn:TMU; [discriminate|]. cbn [negb] in E. injection E as <- <-.
        simpl in Wt.
        unfold remove_all. rewrite K, hand_over_eq.
        set (released := match a_get n (sclaims s) with Some l => l | None => [] end).
        set (ds' := a_del n (sdescs s)).
        set (tc0 := (fold_left (fun t sv => a_del sv t) released (stab s), a_del n (sclaims s))).
        destruct (fold_left (ho_f n ds') released tc0) as [t3 c3] eqn:HO.
        assert (NR : forall w0 n0, mem_nat w0 (removed s) = false -> n0 = name w0 -> n0 <> n -> mem_nat w0 (w :: removed s) = false).
        { intros w0 n0 R0 E0 NE. rewrite mem_nat_cons, R0. destruct (Nat.eqb_spec w0 w) as [->|]; [congruence | reflexivity]. }
        assert (OWN : forall svc n0 id0 w0, a_get svc (stab s) = Some (n0, id0, w0) -> mem_b svc released = false -> n0 <> n /\ In svc (claims_of n0 (sclaims s))).
        { intros svc n0 id0 w0 G MR. destruct (C svc n0 id0 w0 G) as [H|(w' & d' & I' & _)]; [|exfalso; eapply np2_zero; eauto].
          split; [|exact H]. intros ->. apply mem_b_In in H. unfold claims_of in H. fold released in H. congruence. }
        constructor; cbn [set_threads stab sdescs sclaims removed threads].
        * intros svc n0 id0 w0 G.
          pose proof (ho_get n ds' released tc0 svc (n0, id0, w0)) as HG. rewrite HO in HG. unfold tc0 in HG. cbn [fst snd] in HG.
          destruct (HG G) as [G2|[FL _]].
          -- rewrite a_get_fold_del in G2. destruct (mem_b svc released) eqn:MR; [discriminate|].
             destruct (OWN _ _ _ _ G2 MR) as [NE _]. destruct (T _ _ _ _ G2) as [R0 E0]. split; [eapply NR; eauto | exact E0].
          -- apply first_lister_in in FL as (d0 & I0 & _). apply In_a_del in I0 as [I0 _]. unfold ds' in I0. apply In_a_del in I0 as [I0 NE].
             destruct (D _ _ _ I0) as [R0 E0]. split; [eapply NR; eauto | exact E0].
        * intros n0 d0 w0 I0. unfold ds' in I0. apply In_a_del in I0 as [I0 NE]. destruct (D _ _ _ I0) as [R0 E0]. split; [eapply NR; eauto | exact E0].
        * intros svc n0 id0 w0 G. left.
          pose proof (ho_get n ds' released tc0 svc (n0, id0, w0)) as HG. rewrite HO in HG. unfold tc0 in HG. cbn [fst snd] in HG.
          destruct (HG G) as [G2|[_ IC]]; [|exact IC].
          rewrite a_get_fold_del in G2. destruct (mem_b svc released) eqn:MR; [discriminate|].
          destruct (OWN _ _ _ _ G2 MR) as [NE H].
          pose proof (ho_mono n ds' released tc0 n0 svc) as HM.
          rewrite HO in HM. unfold tc0 in HM. cbn [snd] in HM. apply HM. rewrite claims_of_del.
          destruct (bytes_eqb n0 n) eqn:En; [apply bytes_eqb_true in En; contradiction | exact H].
    - destruct r; [discriminate|]. injection E as <- <-. eapply tb_frame; eauto.
    - destruct r; [discriminate|]. destruct (mem_b n (watched s)); injection E as <- <-; eapply tb_frame; eauto.
  Qed.

  Theorem svc_inv_reach s0 s : MxInv s0 -> TbInv s0 -> CReach s0 s -> MxInv s /\ TbInv s.
  Proof.
    intros M T R. induction R as [|s i s' R IH H]; [auto|]. destruct IH as [M' T'].
    split; [eapply mx_step; eauto | eapply tb_step; eauto].
  Qed.

  Lemma np2_all0 ts : (forall w n d pc, In (TUpd w n d pc) ts -> pc = 0%nat) -> np2 ts = 0%nat.
  Proof.
    unfold np2. induction ts as [|a ts IH]; intros U; [reflexivity|]. simpl.
    assert (is_p2 a = false).
    { destruct a as [w n d pc| | |]; try reflexivity. rewrite (U w n d pc (or_introl eq_refl)). reflexivity. }
    rewrite H. apply IH. intros w n d pc I. eapply U. right. exact I.
  Qed.

  Lemma svc_init_inv live0 watched0 ts : (forall t, In t ts -> wf_thr t) ->
    (forall w, nh ts w = 0%nat) -> (forall w n pc, In (TClose w n pc) ts -> pc = 0%nat) ->
    (forall w n d pc, In (TUpd w n d pc) ts -> pc = 0%nat) ->
    MxInv (cinit KService true live0 watched0 ts) /\ TbInv (cinit KService true live0 watched0 ts).
  Proof.
    intros W Z C U. split.
    - refine (Build_MxInv _ _ _ _ _ _ _ _ _ _ _); cbn [kind wmutex threads held removed closedw tmu cinit]; auto.
      + intros w. rewrite Z. split; discriminate.
      + intros w. rewrite Z. lia.
      + intros w n I. apply C in I. discriminate.
      + apply np2_all0, U.
      + intros w n d pc I G. apply U in I. lia.
    - constructor; cbn [stab sdescs sclaims removed threads cinit]; [discriminate | intros n d w [] | discriminate].
  Qed.

  (* C11, service router: in every reachable state, under every interleaving of updates (both phases), removals with
     hand-over, lookups and re-watches, no service is routed through an entry applied by a watcher whose Close has
     executed its removal *)
  Theorem svc_removed_stays_removed s0 s q n d w : MxInv s0 -> TbInv s0 -> CReach s0 s ->
    lookup q s = Some (n, d, w) -> mem_nat w (removed s) = false.
  Proof.
    intros M T R L. destruct (svc_inv_reach s0 s M T R) as [[K _ _ _ _ _ _ _ _ _] [TB _ _]].
    unfold lookup in L. rewrite K in L. apply (TB q n d w L).
  Qed.
End ServiceInv.

(* without the per-watcher mutex the service router, too, lets a removed target come back (the F11 schedule) *)
Definition f11s_threads : list thr :=
  [TUpd 1 [116;49]%N {| cd_id := 10; cd_svcs := [[115]%N] |} 0; TClose 1 [116;49]%N 0; TLook [115]%N None].
Theorem svc_removed_comes_back_without_mutex : exists s,
  crun [0; 1; 1; 0; 0; 2]%nat (cinit KService false [1%nat] [[116;49]%N] f11s_threads) = Some s /\
  mem_nat 1 (removed s) = true /\
  nth_error (threads s) 2 = Some (TLook [115]%N (Some (Some ([116;49]%N, 10, 1%nat)))).
Proof. eexists. split; [vm_compute; reflexivity|]. split; reflexivity. Qed.
Example svc_mutex_blocks_the_witness :
  crun [0; 1; 1]%nat (cinit KService true [1%nat] [[116;49]%N] f11s_threads) = None.
Proof. vm_compute. reflexivity. Qed.
