From GB Require Import Model.GrpcWeb.
From Coq Require Import Lia ZifyNat ZifyN ZifyBool.
Ltac Zify.zify_post_hook ::= Z.div_mod_to_equations.
Open Scope Z_scope.

Lemma max_len_val : max_len = 4194304. Proof. reflexivity. Qed.

Lemma be32_enc n : 0 <= n < 4294967296 -> be32 (enc_be32 n) = n.
Proof.
  intros H. unfold be32, enc_be32. cbn [map fold_left].
  rewrite !Z2N.id by (apply Z.mod_pos_bound; lia). lia.
Qed.

Lemma enc_be32_length n : length (enc_be32 n) = 4%nat. Proof. reflexivity. Qed.

Lemma firstn_app_exact {A} (a b : list A) : firstn (length a) (a ++ b) = a.
Proof. induction a; simpl; [destruct b; reflexivity | f_equal; assumption]. Qed.
Lemma skipn_app_exact {A} (a b : list A) : skipn (length a) (a ++ b) = b.
Proof. induction a; simpl; auto. Qed.

Definition frame_ok (p : bytes) : Prop := zlen p <= max_len.

(* the reader takes exactly one encoded frame off the front, whatever follows *)
Lemma recv1_frame flag p rest : frame_ok p -> recv1 (enc_frame flag p ++ rest) = (RMsg p, rest).
Proof.
  intros Hok. unfold frame_ok in Hok. rewrite max_len_val in Hok.
  unfold recv1, enc_frame. cbn [app].
  remember (enc_be32 (zlen p)) as h eqn:Eh.
  assert (Lh : length h = 4%nat) by (subst h; reflexivity).
  destruct h as [|h0 [|h1 [|h2 [|h3 [|]]]]]; try discriminate.
  cbn [app length skipn firstn Nat.ltb Nat.leb].
  assert (B : be32 [h0; h1; h2; h3] = zlen p) by (rewrite Eh; apply be32_enc; unfold zlen in *; lia).
  rewrite B.
  destruct (Z.eqb_spec (zlen p) 0) as [Z0|NZ].
  - destruct p; [reflexivity | unfold zlen in Z0; simpl in Z0; lia].
  - rewrite max_len_val. destruct (Z.ltb_spec 4194304 (zlen p)); [lia|].
    unfold zlen at 1. rewrite app_length.
    destruct (Z.ltb_spec (Z.of_nat (length p + length rest)) (zlen p)); [unfold zlen in *; lia|].
    unfold zlen. rewrite Nat2Z.id. rewrite firstn_app_exact, skipn_app_exact. reflexivity.
Qed.

Lemma recv_all_frames : forall ps fuel, (length ps < fuel)%nat -> Forall frame_ok ps ->
  recv_all_with recv1 fuel (concat (map (enc_frame 0) ps)) = (ps, 0).
Proof.
  induction ps as [|p ps IH]; intros fuel Hf Hok.
  - destruct fuel; [inversion Hf|]. reflexivity.
  - destruct fuel; [inversion Hf|]. inversion Hok; subst.
    cbn [map concat recv_all_with]. rewrite recv1_frame by assumption.
    rewrite IH; [reflexivity | simpl in Hf; lia | assumption].
Qed.

Lemma concat_frames_length ps : (length ps <= length (concat (map (enc_frame 0) ps)))%nat.
Proof. induction ps as [|p ps IH]; simpl; [lia|]. rewrite app_length. simpl. lia. Qed.

(* C08: frames round trip, for every chunking *)
Theorem frames_roundtrip ps chunks : Forall frame_ok ps ->
  concat chunks = concat (map (enc_frame 0) ps) -> recv_chunks chunks = (ps, 0).
Proof.
  intros Hok E. unfold recv_chunks, recv_all. rewrite E.
  apply recv_all_frames; [|assumption]. pose proof (concat_frames_length ps). lia.
Qed.

Theorem chunking_irrelevant c1 c2 : concat c1 = concat c2 -> recv_chunks c1 = recv_chunks c2.
Proof. intros E. unfold recv_chunks. rewrite E. reflexivity. Qed.

(* oversize frames are rejected *)
Theorem oversize_rejected flag n rest : max_len < n < 4294967296 ->
  recv1 (flag :: enc_be32 n ++ rest) = (RErr 8, rest).
Proof.
  intros H. rewrite max_len_val in H. unfold recv1.
  remember (enc_be32 n) as h eqn:Eh.
  assert (Lh : length h = 4%nat) by (subst h; reflexivity).
  destruct h as [|h0 [|h1 [|h2 [|h3 [|]]]]]; try discriminate.
  cbn [app length skipn firstn Nat.ltb Nat.leb].
  assert (B : be32 [h0; h1; h2; h3] = n) by (rewrite Eh; apply be32_enc; lia).
  rewrite B. destruct (Z.eqb_spec n 0); [lia|]. rewrite max_len_val.
  destruct (Z.ltb_spec 4194304 n); [reflexivity | lia].
Qed.

(* whatever is delivered is a whole declared frame: header, then exactly the declared number of bytes; never a prefix *)
Theorem delivered_is_whole_frame s p rest : recv1 s = (RMsg p, rest) ->
  s = firstn 5 s ++ p ++ rest /\ be32 (firstn 4 (skipn 1 s)) = zlen p /\ zlen p <= max_len.
Proof.
  unfold recv1. destruct s as [|c s']; [discriminate|].
  set (s := c :: s').
  destruct (Nat.ltb_spec (length s) 5); [discriminate|].
  set (len := be32 (firstn 4 (skipn 1 s))).
  destruct (Z.eqb_spec len 0) as [Z0|NZ].
  - intros [= <- <-]. repeat split; [symmetry; apply (firstn_skipn 5 s) | exact Z0 | rewrite max_len_val; unfold zlen; simpl; lia].
  - destruct (Z.ltb_spec max_len len); [discriminate|].
    destruct (Z.ltb_spec (zlen (skipn 5 s)) len); [discriminate|].
    intros [= <- <-].
    assert (Lf : zlen (firstn (Z.to_nat len) (skipn 5 s)) = len).
    { unfold zlen in *. rewrite firstn_length. assert (0 <= len).
      { unfold len, be32. generalize (firstn 4 (skipn 1 s)). intros l.
        assert (G : forall l acc, 0 <= acc -> 0 <= fold_left (fun acc c => acc * 256 + Z.of_N c) l acc).
        { induction l0 as [|x l0 IH]; intros acc Ha; simpl; [lia | apply IH; lia]. }
        apply G; lia. }
      lia. }
    repeat split.
    + rewrite firstn_skipn. symmetry; apply firstn_skipn.
    + symmetry; exact Lf.
    + eapply Z.le_trans; [apply Z.eq_le_incl; exact Lf | assumption].
Qed.

(* the pre-repair reader truncates: shown on the algorithm with a small limit (the real one needs a 4 MiB witness) *)
Theorem recv_old_truncates : exists s p rest,
  recv1_old_with 2 s = (RMsg p, rest) /\ zlen p < be32 (firstn 4 (skipn 1 s)).
Proof.
  exists [0;0;0;0;4;7;7;7;7]%N, [7;7]%N, [7;7]%N. split; vm_compute; reflexivity.
Qed.

(* ---- grpc-websockets ---- *)
Lemma ws_data_message closed0 fc p : closed0 = false ->
  ws_on_message closed0 (fc :: enc_frame 0 p) = (Some (WData p), (fc =? 1)%N).
Proof.
  intros ->. unfold ws_on_message, enc_frame.
  assert (L : (6 <=? length (fc :: 0%N :: enc_be32 (zlen p) ++ p))%nat = true).
  { apply Nat.leb_le. cbn [length]. rewrite app_length, enc_be32_length. lia. }
  rewrite L.
  replace (skipn 6 (fc :: 0%N :: enc_be32 (zlen p) ++ p)) with p; [reflexivity|].
  symmetry. apply (skipn_app_exact (fc :: 0%N :: enc_be32 (zlen p)) p).
Qed.

Theorem ws_delivery ps : ws_recv_all false (map (fun p => 0%N :: enc_frame 0 p) ps ++ [[1%N]]) = (ps, 0).
Proof.
  induction ps as [|p ps IH]; [reflexivity|].
  cbn [map app ws_recv_all]. rewrite ws_data_message by reflexivity.
  change ((0 =? 1)%N) with false. rewrite IH. reflexivity.
Qed.

Theorem ws_malformed_is_error ps m : (m = [] \/ (2 <= length m <= 5)%nat) ->
  snd (ws_recv_all false (map (fun p => 0%N :: enc_frame 0 p) ps ++ [m])) = 3.
Proof.
  intros Hm. induction ps as [|p ps IH].
  - cbn [map app ws_recv_all]. destruct Hm as [->|Hm]; [reflexivity|].
    destruct m as [|a m]; [simpl in Hm; lia|].
    unfold ws_on_message.
    assert (L1 : (6 <=? length (a :: m))%nat = false) by (apply Nat.leb_gt; lia).
    assert (L2 : Nat.eqb (length (a :: m)) 1 = false) by (apply Nat.eqb_neq; lia).
    rewrite L1, L2. reflexivity.
  - cbn [map app ws_recv_all]. rewrite ws_data_message by reflexivity.
    change ((0 =? 1)%N) with false. destruct (ws_recv_all false _) as [ps' e]. simpl in *. exact IH.
Qed.

(* ---- response body: decoder . encoder = id for any frame list ---- *)
Definition enc_f (f : N * bytes) : bytes := enc_frame (fst f) (snd f).

Lemma parse_one flag p rest fuel :
  zlen p < 4294967296 ->
  parse_frames (S fuel) (enc_frame flag p ++ rest) =
  let '(fs, l) := parse_frames fuel rest in ((flag, p) :: fs, l).
Proof.
  intros Hl. unfold enc_frame. cbn [app parse_frames].
  remember (enc_be32 (zlen p)) as h eqn:Eh.
  assert (Lh : length h = 4%nat) by (subst h; reflexivity).
  destruct h as [|h0 [|h1 [|h2 [|h3 [|]]]]]; try discriminate.
  cbn [app length skipn firstn Nat.ltb Nat.leb].
  assert (B : be32 [h0; h1; h2; h3] = zlen p) by (rewrite Eh; apply be32_enc; unfold zlen in *; lia).
  rewrite B. unfold zlen at 1. rewrite app_length.
  destruct (Z.ltb_spec (Z.of_nat (length p + length rest)) (zlen p)); [unfold zlen in *; lia|].
  unfold zlen. rewrite Nat2Z.id, firstn_app_exact, skipn_app_exact. reflexivity.
Qed.

Theorem parse_frames_enc : forall fs fuel, (length fs < fuel)%nat ->
  Forall (fun f => zlen (snd f) < 4294967296) fs ->
  parse_frames fuel (concat (map enc_f fs)) = (fs, []).
Proof.
  induction fs as [|[flag p] fs IH]; intros fuel Hf Hok.
  - destruct fuel; [inversion Hf|]. reflexivity.
  - destruct fuel; [inversion Hf|]. inversion Hok; subst. cbn [map concat].
    unfold enc_f at 1. cbn [fst snd]. rewrite parse_one by assumption.
    rewrite IH; [reflexivity | simpl in Hf; lia | assumption].
Qed.

(* the modelled response: data frames then exactly one trailer frame, in final position *)
Definition resp_body (msgs : list bytes) (trailer_block : bytes) : bytes :=
  concat (map enc_f (map (fun m => (0%N, m)) msgs ++ [(128%N, trailer_block)])).

Theorem response_shape msgs tb fuel :
  Forall (fun m => zlen m < 4294967296) msgs -> zlen tb < 4294967296 -> (S (length msgs) < fuel)%nat ->
  parse_frames fuel (resp_body msgs tb) = (map (fun m => (0%N, m)) msgs ++ [(128%N, tb)], []).
Proof.
  intros Hm Ht Hf. unfold resp_body. apply parse_frames_enc.
  - rewrite app_length, map_length. simpl. lia.
  - apply Forall_app. split; [|constructor; [exact Ht | constructor]].
    apply Forall_forall. intros f I. apply in_map_iff in I as (m & <- & I). simpl.
    rewrite Forall_forall in Hm. auto.
Qed.

(* ---- percent-encoding ---- *)
Lemma unhex_hex n : (n < 16)%N -> unhex (hex_digit n) = Some n.
Proof.
  intros H. assert (C : (n = 0 \/ n = 1 \/ n = 2 \/ n = 3 \/ n = 4 \/ n = 5 \/ n = 6 \/ n = 7 \/ n = 8 \/ n = 9 \/
                        n = 10 \/ n = 11 \/ n = 12 \/ n = 13 \/ n = 14 \/ n = 15)%N) by lia.
  repeat (destruct C as [->|C]; [reflexivity|]). subst; reflexivity.
Qed.

Lemma keep_not_pct c : path_keep c = true -> (c =? 37)%N = false.
Proof.
  unfold path_keep, is_alnum, is_lower, is_upper, is_digit. cbn [existsb]. intros H.
  apply N.eqb_neq. intros ->. vm_compute in H. discriminate.
Qed.

Lemma pct_roundtrip_gen : forall m fuel, Forall (fun c => (c < 256)%N) m -> (length (path_escape m) <= fuel)%nat ->
  pct_decode fuel (path_escape m) = m.
Proof.
  induction m as [|c m IH]; intros fuel Hb Hf.
  - destruct fuel; reflexivity.
  - inversion Hb; subst. unfold path_escape in *. cbn [flat_map] in *.
    destruct (path_keep c) eqn:K.
    + cbn [app] in *. destruct fuel; [simpl in Hf; lia|]. cbn [pct_decode].
      rewrite (keep_not_pct c K). f_equal. apply IH; [assumption | simpl in Hf; lia].
    + cbn [app] in *. destruct fuel; [simpl in Hf; lia|]. cbn [pct_decode]. rewrite N.eqb_refl.
      rewrite !unhex_hex by (try apply N.mod_lt; try apply N.div_lt_upper_bound; lia).
      f_equal; [lia|]. apply IH; [assumption | simpl in Hf; lia].
Qed.

Theorem pct_roundtrip m : Forall (fun c => (c < 256)%N) m -> pct_dec (path_escape m) = m.
Proof. intros H. unfold pct_dec. apply pct_roundtrip_gen; [exact H | lia]. Qed.

Lemma hex_digit_printable n : (n < 16)%N -> (33 <= hex_digit n <= 126)%N.
Proof. intros H. unfold hex_digit. destruct (N.ltb_spec n 10); lia. Qed.

Theorem escaped_is_printable_ascii m : Forall (fun c => (c < 256)%N) m ->
  Forall (fun c => (33 <= c <= 126)%N) (path_escape m).
Proof.
  induction m as [|c m IH]; intros Hb; [constructor|]. inversion Hb; subst.
  unfold path_escape. cbn [flat_map]. apply Forall_app. split; [|apply IH; assumption].
  destruct (path_keep c) eqn:K.
  - constructor; [|constructor]. unfold path_keep, is_alnum, is_lower, is_upper, is_digit in K. cbn [existsb] in K. lia.
  - constructor; [lia|].
    constructor; [apply hex_digit_printable; apply N.div_lt_upper_bound; lia|].
    constructor; [apply hex_digit_printable; apply N.mod_lt; lia | constructor].
Qed.

Example frames_ex : recv_chunks [[0;0;0]; [0;2;8]; [1;0;0;0;0;0]]%N = ([[8;1]; []]%N, 0).
Proof. reflexivity. Qed.
