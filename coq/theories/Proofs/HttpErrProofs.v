From GB Require Import Model.HttpErr.
From Coq Require Import Lia.
Open Scope Z_scope.

(* finite domain: the 17 gRPC codes 0..16 *)
Definition codes17 : list Z := map Z.of_nat (seq 0 17).

Lemma code_table_all : forallb (fun c => Z.eqb (http_of_code c) (nth (Z.to_nat c) canonical_http 500)) codes17 = true.
Proof. vm_compute. reflexivity. Qed.

Theorem code_table c : 0 <= c <= 16 -> http_of_code c = nth (Z.to_nat c) canonical_http 500.
Proof.
  intros H. pose proof code_table_all as A. rewrite forallb_forall in A.
  apply Z.eqb_eq. apply A. unfold codes17. apply in_map_iff. exists (Z.to_nat c). split; [lia|]. apply in_seq. lia.
Qed.

Theorem ok_only_for_ok c : 0 <= c <= 16 -> (http_of_code c = 200 <-> c = 0).
Proof.
  intros H. assert (C : c = 0 \/ c = 1 \/ c = 2 \/ c = 3 \/ c = 4 \/ c = 5 \/ c = 6 \/ c = 7 \/ c = 8 \/ c = 9 \/ c = 10 \/
                        c = 11 \/ c = 12 \/ c = 13 \/ c = 14 \/ c = 15 \/ c = 16) by lia.
  repeat (destruct C as [->|C]; [vm_compute; split; congruence|]). subst. vm_compute; split; congruence.
Qed.

Definition carries (b : body) : bool :=
  match b with BNone => false | BText m => m | BStatus _ m _ => m end.

(* C10 error shape: for every error before the first byte on a live request *)
Theorem error_shape bound encodable code override details :
  exists st b, write_error false false bound encodable code override details = Some (st, b) /\
    st = (match override with Some h => h | None => http_of_code code end) /\
    carries b = true /\
    (bound = true -> encodable = true -> b = BStatus code true details) /\
    (bound = false -> b = BText true) /\
    (bound = true -> encodable = false -> b = BText true).
Proof.
  unfold write_error. cbn [negb]. destruct bound, encodable; cbn; eexists; eexists; repeat split; intros; try discriminate; reflexivity.
Qed.

Theorem no_render_after_write canceled bound encodable code override details :
  write_error true canceled bound encodable code override details = None.
Proof. reflexivity. Qed.

Theorem canceled_is_499 bound encodable code override details :
  write_error false true bound encodable code override details = Some (499, BNone).
Proof. reflexivity. Qed.

(* F10: the code before the repair answered with an empty body when the status could not be encoded *)
Theorem fallback_body_old_refuted : exists code, write_error_old false false true false code None 1 = Some (http_of_code code, BNone).
Proof. exists 7. reflexivity. Qed.

(* negotiation *)
Theorem negotiation_415 known default cts :
  pick_request known default cts = None <->
  cts <> [] /\ (forall m, In (Some m) cts -> existsb (bytes_eqb m) known = false).
Proof.
  unfold pick_request. destruct cts as [|c cts]; [split; [discriminate | intros [H _]; congruence]|].
  set (f := fun c0 : option bytes => match c0 with Some m => existsb (bytes_eqb m) known | None => false end).
  split.
  - intros H. split; [discriminate|]. intros m I.
    destruct (existsb (bytes_eqb m) known) eqn:E; [|reflexivity]. exfalso.
    assert (J : In (Some m) (filter f (c :: cts))) by (apply filter_In; split; [exact I | exact E]).
    destruct (filter f (c :: cts)) as [|[x|] r] eqn:F; [destruct J | discriminate |].
    assert (K : In None (filter f (c :: cts))) by (rewrite F; left; reflexivity).
    apply filter_In in K as [_ K]. discriminate.
  - intros [_ H]. destruct (filter f (c :: cts)) as [|[x|] r] eqn:F; [reflexivity | | reflexivity].
    assert (K : In (Some x) (filter f (c :: cts))) by (rewrite F; left; reflexivity).
    apply filter_In in K as [K1 K2]. simpl in K2. rewrite (H x K1) in K2. discriminate.
Qed.

Theorem negotiation_default known default : pick_request known default [] = Some default.
Proof. reflexivity. Qed.

Theorem response_follows_accept known req accepts a :
  In a accepts -> existsb (bytes_eqb a) known = true -> exists a', pick_response known req accepts = a' /\ In a' accepts /\ existsb (bytes_eqb a') known = true.
Proof.
  intros I E. unfold pick_response.
  destruct (filter (fun a0 => existsb (bytes_eqb a0) known) accepts) as [|a' r] eqn:F.
  - assert (J : In a (filter (fun a0 => existsb (bytes_eqb a0) known) accepts)) by (apply filter_In; auto). rewrite F in J. destruct J.
  - exists a'. split; [reflexivity|]. assert (J : In a' (filter (fun a0 => existsb (bytes_eqb a0) known) accepts)) by (rewrite F; left; reflexivity).
    apply filter_In in J. exact J.
Qed.

Theorem response_defaults_to_request known req accepts :
  (forall a, In a accepts -> existsb (bytes_eqb a) known = false) -> pick_response known req accepts = req.
Proof.
  intros H. unfold pick_response.
  destruct (filter (fun a0 => existsb (bytes_eqb a0) known) accepts) as [|a' r] eqn:F; [reflexivity|].
  assert (J : In a' (filter (fun a0 => existsb (bytes_eqb a0) known) accepts)) by (rewrite F; left; reflexivity).
  apply filter_In in J as [J1 J2]. rewrite (H a' J1) in J2. discriminate.
Qed.
