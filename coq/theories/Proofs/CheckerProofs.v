(* The property-only checkers (parts whose reference is computed next to the implementation: protojson, the bytes that were
   sent) have no model behind them; what CAN be proved about them is that the executable statement says what its comment
   says: a verdict "ok" means the equalities hold as equalities of values, not just of some boolean test. *)
From GB Require Import Base.Val Model.ForwardRun Model.JsonRun Model.TranscodeRun.
From Coq Require Import Lia.

Lemma list_eqb_N_eq : forall a b : list N, list_eqb N.eqb a b = true -> a = b.
Proof.
  induction a as [|x a IH]; intros [|y b]; simpl; try discriminate; auto.
  intros H. apply andb_prop in H as [H1 H2]. apply N.eqb_eq in H1. f_equal; auto.
Qed.

Lemma val_eqb_eq : forall a b, val_eqb a b = true -> a = b.
Proof.
  fix IH 1. intros [x|x|x] [y|y|y]; simpl; try discriminate.
  - intros H. apply Z.eqb_eq in H. congruence.
  - intros H. f_equal. apply list_eqb_N_eq. exact H.
  - intros H. f_equal. revert y H.
    induction x as [|u x IHx]; intros [|v y]; try discriminate; auto.
    intros H. apply andb_prop in H as [H1 H2]. f_equal; [apply IH; exact H1 | apply IHx; exact H2].
Qed.

Lemma val_eqb_refl : forall a, val_eqb a a = true.
Proof.
  fix IH 1. intros [x|x|x]; simpl.
  - apply Z.eqb_refl.
  - induction x as [|u x IHx]; simpl; auto. unfold bytes_eqb in *. simpl. rewrite N.eqb_refl. exact IHx.
  - induction x as [|u x IHx]; auto. rewrite IH. exact IHx.
Qed.

(* C01 bytes: no failure reported <-> the target received the client's bytes, the client the target's, and the target's final status *)
Lemma c01_bytes_exact input impl :
  prop_c01_bytes input impl = None <->
  nthv 0 impl = nthv 1 input /\ nthv 1 impl = nthv 2 input /\ nthv 2 impl = nthv 3 input.
Proof.
  unfold prop_c01_bytes. split.
  - destruct (val_eqb (nthv 0 impl) (nthv 1 input)) eqn:E1; simpl; try discriminate.
    destruct (val_eqb (nthv 1 impl) (nthv 2 input)) eqn:E2; simpl; try discriminate.
    destruct (val_eqb (nthv 2 impl) (nthv 3 input)) eqn:E3; simpl; try discriminate.
    intros _. apply val_eqb_eq in E1, E2, E3. auto.
  - intros (H1 & H2 & H3). rewrite H1, H2, H3, !val_eqb_refl. reflexivity.
Qed.

(* C09 wkt, arbitrary texts: no failure reported -> no panic, and if codec and reference both accept they stored the same message *)
Lemma c09_wkt_text_sound input impl :
  as_Z (nthv 0 input) = 0 -> prop_c09_wkt input impl = None ->
  is_panic (nthv 0 impl) = false /\ (is_acc (nthv 0 impl) = true -> is_acc (nthv 1 impl) = true -> nthv 0 impl = nthv 1 impl).
Proof.
  unfold prop_c09_wkt. intros -> .
  destruct (is_panic (nthv 0 impl)); try discriminate.
  destruct (is_acc (nthv 0 impl)); simpl; [|intros _; split; [reflexivity|discriminate]].
  destruct (is_acc (nthv 1 impl)); simpl; [|intros _; split; [reflexivity|discriminate]].
  destruct (val_eqb (nthv 0 impl) (nthv 1 impl)) eqn:E; simpl; try discriminate.
  intros _. split; [reflexivity|]. intros _ _. apply val_eqb_eq. exact E.
Qed.

(* C09 wkt, values: no failure reported -> both round trips (own encoding, canonical encoding) give the value back *)
Lemma c09_wkt_value_sound input impl :
  as_Z (nthv 0 input) <> 0 -> prop_c09_wkt input impl = None ->
  nthv 0 impl = nthv 2 impl /\ nthv 1 impl = nthv 2 impl.
Proof.
  unfold prop_c09_wkt. intros Hk.
  destruct (as_Z (nthv 0 input)) eqn:Ek; [contradiction| |];
  (destruct (is_panic (nthv 0 impl) || is_panic (nthv 1 impl)); try discriminate;
   destruct (val_eqb (nthv 0 impl) (nthv 2 impl)) eqn:E1; simpl; try discriminate;
   destruct (val_eqb (nthv 1 impl) (nthv 2 impl)) eqn:E2; simpl; try discriminate;
   intros _; split; apply val_eqb_eq; assumption).
Qed.

(* C04 wktparam, canonical texts: no failure reported -> the value arrived *)
Lemma c04_text_canonical_sound input impl :
  as_Z (nthv 0 input) = 1 -> prop_c04_text input impl = None -> nthv 0 impl = nthv 1 impl.
Proof.
  unfold prop_c04_text. intros ->. set (g := nthv 0 impl). set (wnt := nthv 1 impl).
  set (body := if negb (res_acc g) && negb (val_eqb g (VL [VN 3])) then Some 2
               else if (1 =? 1) then (if val_eqb g wnt then None else Some 8)
               else if res_acc g && res_acc wnt && negb (val_eqb g wnt) then Some 7 else None).
  intros H. assert (B : body = None).
  { revert H. destruct (as_L g) as [|[z| |] t]; try (intros H; exact H).
    destruct z as [|p|p]; try (intros H; exact H); try (destruct t; intros H; exact H).
    repeat (destruct p as [p|p|]; try (intros H; exact H); try (destruct t; intros H; exact H)).
    all: destruct t; intros H; first [discriminate H | exact H]. }
  unfold body in B. clear H body.
  destruct (negb (res_acc g) && negb (val_eqb g (VL [VN 3]))); try discriminate.
  simpl in B. destruct (val_eqb g wnt) eqn:E; try discriminate.
  apply val_eqb_eq. exact E.
Qed.
