From GB Require Import Model.Resolver.
From Coq Require Import Lia.
Open Scope Z_scope.

Lemma last_delivered_app a b :
  last_delivered (a ++ b) = match last_delivered b with Some x => Some x | None => last_delivered a end.
Proof.
  induction a as [|c a IH]; simpl; [destruct (last_delivered b); reflexivity|].
  destruct c as [x|]; rewrite IH; destruct (last_delivered b); try reflexivity.
Qed.

(* the resolver's outcome of one poll does not depend on the remembered method priority *)
Lemma resolve_result s p : fst (resolve s p) = reachable_result p.
Proof.
  unfold resolve, reachable_result. destruct (prio_alpha s), (p_v1 p), (p_alpha p); reflexivity.
Qed.

(* the remembered fingerprint is exactly the last delivered contract *)
Lemma run_polls_spec : forall ps s sofar, last s = last_delivered sofar ->
  run_polls s ps = spec_cbs sofar ps.
Proof.
  induction ps as [|p ps IH]; intros s sofar L; [reflexivity|].
  cbn [run_polls spec_cbs]. unfold poll.
  pose proof (resolve_result s p) as R. destruct (resolve s p) as [r pa]. simpl in R. rewrite <- R.
  destruct r as [c|].
  - rewrite <- L. destruct (last s) as [l|] eqn:E.
    + destruct (Z.eqb_spec l c).
      * rewrite app_nil_r. simpl. apply IH. simpl. congruence.
      * simpl. f_equal. apply IH. simpl. rewrite last_delivered_app. reflexivity.
    + simpl. f_equal. apply IH. simpl. rewrite last_delivered_app. reflexivity.
  - simpl. f_equal. apply IH. simpl. rewrite last_delivered_app. simpl. exact L.
Qed.

(* C15: over ANY history of poll outcomes the callbacks are exactly what the contract requires *)
Theorem updates_exact ps : run_polls r_init ps = spec_cbs [] ps.
Proof. apply run_polls_spec. reflexivity. Qed.

(* the hash is saved late: [last] changes only together with an update being delivered *)
Theorem hash_saved_late s p : last (fst (poll s p)) <> last s -> exists c, snd (poll s p) = [CUpdate c] /\ last (fst (poll s p)) = Some c.
Proof.
  unfold poll. destruct (resolve s p) as [[c|] pa]; simpl.
  - destruct (last s) as [l|] eqn:E.
    + destruct (Z.eqb_spec l c); simpl; [congruence | eauto].
    + simpl; eauto.
  - congruence.
Qed.

(* a failed poll only reports an error and leaves what was delivered in place; the next success recovers *)
Theorem failure_keeps_state s p : fst (resolve s p) = PFail -> last (fst (poll s p)) = last s /\ snd (poll s p) = [CError].
Proof. unfold poll. destruct (resolve s p) as [[c|] pa]; simpl; [discriminate | auto]. Qed.

(* version fallback: whichever protocol version is remembered first, the callbacks are the same *)
Theorem version_priority_irrelevant l b1 b2 ps :
  run_polls {| last := l; prio_alpha := b1 |} ps = run_polls {| last := l; prio_alpha := b2 |} ps.
Proof.
  revert l b1 b2. induction ps as [|p ps IH]; intros l b1 b2; [reflexivity|].
  cbn [run_polls]. unfold poll.
  pose proof (resolve_result {| last := l; prio_alpha := b1 |} p) as R1.
  pose proof (resolve_result {| last := l; prio_alpha := b2 |} p) as R2.
  destruct (resolve {| last := l; prio_alpha := b1 |} p) as [r1 pa1].
  destruct (resolve {| last := l; prio_alpha := b2 |} p) as [r2 pa2]. simpl in *. subst r1 r2.
  destruct (reachable_result p) as [c|]; simpl.
  - destruct l as [l0|]; [destruct (l0 =? c)|]; simpl; first [apply IH | f_equal; apply IH].
  - simpl. f_equal. apply IH.
Qed.

Example history_ex :
  run_polls r_init [ {| p_v1 := true; p_alpha := true; p_res := PSuccess 1 |}; {| p_v1 := true; p_alpha := true; p_res := PFail |};
                     {| p_v1 := false; p_alpha := true; p_res := PSuccess 1 |}; {| p_v1 := true; p_alpha := true; p_res := PSuccess 2 |} ]
  = [CUpdate 1; CError; CUpdate 2].
Proof. reflexivity. Qed.
