open Model
let table : (string * (val0 -> val0)) list = [
  "chk_c12_decode", chk_c12_decode;
  "chk_c07", chk_c07;
]
