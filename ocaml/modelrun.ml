(* modelrun: reads one val per line (text form), applies the named extracted function, prints the
   resulting val per line.  Text form:  #<hex> | #-<hex>  integers;  x<hexbytes>  byte strings;
   ( v v ... )  lists.  No OCaml int ever carries model data: numbers go bit by bit into positive. *)
open Model

let rec pos_of_bits (bits : bool list) : positive =
  (* bits: most significant first, head is true *)
  match bits with
  | [] -> XH
  | _ ->
    let rec go acc = function
      | [] -> acc
      | b :: r -> go (if b then XI acc else XO acc) r in
    (match bits with
     | true :: r -> go XH r
     | _ -> failwith "pos_of_bits")

let hexval c =
  match c with
  | '0'..'9' -> Char.code c - 48
  | 'a'..'f' -> Char.code c - 87
  | 'A'..'F' -> Char.code c - 55
  | _ -> failwith "bad hex"

let bits_of_hex (s : string) : bool list =
  let l = ref [] in
  String.iter (fun c -> let v = hexval c in
    l := (v land 1 <> 0) :: (v land 2 <> 0) :: (v land 4 <> 0) :: (v land 8 <> 0) :: !l) s;
  (* !l is least significant first; reverse and strip leading zeros *)
  let rec strip = function false :: r -> strip r | x -> x in
  strip (List.rev !l)

let z_of_hex (s : string) : z =
  let neg, h = if String.length s > 0 && s.[0] = '-' then true, String.sub s 1 (String.length s - 1) else false, s in
  match bits_of_hex h with
  | [] -> Z0
  | bits -> let p = pos_of_bits bits in if neg then Zneg p else Zpos p

let n_of_int (i : int) : n =
  if i = 0 then N0 else
    let rec bits i acc = if i = 0 then acc else bits (i lsr 1) ((i land 1 <> 0) :: acc) in
    Npos (pos_of_bits (bits i []))

let rec bits_of_pos (p : positive) (acc : bool list) : bool list =
  (* returns most significant first *)
  match p with
  | XH -> true :: acc
  | XO q -> bits_of_pos q (false :: acc)
  | XI q -> bits_of_pos q (true :: acc)

let hex_of_pos (p : positive) : string =
  let bits = bits_of_pos p [] in
  let n = List.length bits in
  let pad = (4 - n mod 4) mod 4 in
  let bits = List.init pad (fun _ -> false) @ bits in
  let buf = Buffer.create 16 in
  let rec go = function
    | a :: b :: c :: d :: r ->
      let v = (if a then 8 else 0) + (if b then 4 else 0) + (if c then 2 else 0) + (if d then 1 else 0) in
      Buffer.add_char buf "0123456789abcdef".[v]; go r
    | [] -> ()
    | _ -> failwith "hex_of_pos" in
  go bits; Buffer.contents buf

let int_of_n (x : n) : int =
  match x with
  | N0 -> 0
  | Npos p -> List.fold_left (fun a b -> a * 2 + (if b then 1 else 0)) 0 (bits_of_pos p [])

(* ---- parser ---- *)
let parse_line (s : string) : val0 =
  let n = String.length s in
  let pos = ref 0 in
  let skip () = while !pos < n && (s.[!pos] = ' ' || s.[!pos] = '\t' || s.[!pos] = '\r') do incr pos done in
  let token () =
    let st = !pos in
    while !pos < n && s.[!pos] <> ' ' && s.[!pos] <> '\t' && s.[!pos] <> '\r' do incr pos done;
    String.sub s st (!pos - st) in
  let rec value () : val0 =
    skip ();
    if !pos >= n then failwith "eof";
    match s.[!pos] with
    | '(' -> incr pos; let items = ref [] in
      let rec loop () =
        skip ();
        if !pos >= n then failwith "unterminated list";
        if s.[!pos] = ')' then incr pos else begin items := value () :: !items; loop () end in
      loop (); VL (List.rev !items)
    | '#' -> incr pos; let t = token () in VN (z_of_hex t)
    | 'x' -> incr pos; let t = token () in
      let m = String.length t / 2 in
      VS (List.init m (fun i -> n_of_int (hexval t.[2*i] * 16 + hexval t.[2*i+1])))
    | c -> failwith (Printf.sprintf "unexpected char %c" c) in
  value ()

let rec print_val (b : Buffer.t) (v : val0) : unit =
  match v with
  | VN Z0 -> Buffer.add_string b "#0"
  | VN (Zpos p) -> Buffer.add_char b '#'; Buffer.add_string b (hex_of_pos p)
  | VN (Zneg p) -> Buffer.add_string b "#-"; Buffer.add_string b (hex_of_pos p)
  | VS l -> Buffer.add_char b 'x';
    List.iter (fun c -> Buffer.add_string b (Printf.sprintf "%02x" (int_of_n c land 255))) l
  | VL l -> Buffer.add_string b "(";
    List.iter (fun x -> Buffer.add_char b ' '; print_val b x) l; Buffer.add_string b " )"

let () =
  let name = Sys.argv.(1) in
  let f = try List.assoc name Dispatch.table with Not_found -> (prerr_endline ("unknown function " ^ name); exit 2) in
  (try
    while true do
      let line = input_line stdin in
      if String.length line > 0 then begin
        let v = parse_line line in
        let r = f v in
        let b = Buffer.create 256 in
        print_val b r; print_endline (Buffer.contents b)
      end
    done
  with End_of_file -> ())
