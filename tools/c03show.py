import sys,collections
sys.path.insert(0,'/verif/tools')
from vshow import show
cases=open('/verif/work/C03/route.cases').read().splitlines()
ver=open('/verif/work/C03/route.verdicts').read().splitlines()
cnt=collections.Counter(); shown=0
for c,v in zip(cases,ver):
    vv=show(v); key=(vv[0],vv[1] if vv[0]==2 else None); cnt[key]+=1
    if vv[0]!=0 and shown<25:
        shown+=1
        cc=show(c); inp=cc[0]
        print(key,'method',inp[1],'esc',repr(inp[2]),'raw',repr(inp[3]),'impl',cc[1],'model',vv[-1])
        try:
            if vv[-1] and vv[-1][0]==0: print('    model binding:', inp[0][vv[-1][1]][0][vv[-1][2]])
            if cc[1] and cc[1][0]==0: print('    impl  binding:', inp[0][cc[1][1]][0][cc[1][2]])
        except Exception as e: print('   ?',e)
print(cnt)
