#!/bin/bash
# usage: recheck_all_seeds.sh <repo-dir> <out-file>
# applies every seeded change in turn to <repo-dir> (a scratch copy or snapshot of /repo - never /repo itself while other
# work is going on), runs the check of its property with VERIF_REPO=<repo-dir>, reverts, and writes one line per seed:
#   <seed> <property> CAUGHT|MISSED|NOAPPLY <summary line of the check>
# A report for DESIGN II.4, not evidence.
REPO=$1; OUT=$2
cd "$(dirname "$0")/.."
: > "$OUT"
for d in seeded/*/; do
  id=$(basename $d); prop=${id%%-*}
  if ! git -C "$REPO" apply --check "$PWD/$d/patch.diff" 2>/dev/null; then echo "$id $prop NOAPPLY" >> "$OUT"; continue; fi
  git -C "$REPO" apply "$PWD/$d/patch.diff"
  res=$(VERIF_REPO="$REPO" timeout 1500 ./check $prop 2>&1 | grep -E "VIOLATION|tier=")
  git -C "$REPO" checkout -- . 2>/dev/null; git -C "$REPO" clean -fdq 2>/dev/null
  if echo "$res" | grep -q VIOLATION; then v=CAUGHT; else v=MISSED; fi
  echo "$id $prop $v $(echo "$res" | grep tier= | head -1)" >> "$OUT"
done
echo done >> "$OUT"
