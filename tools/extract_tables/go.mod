module verif/extract_tables

go 1.22
