// extract_tables regenerates coq/theories/Gen/Extracted.v from the syntactic tables in /repo.
// It understands only the specific shapes it is written for; when a shape is not found, the
// corresponding definition is emitted as the committed fallback and a "(* FALLBACK name *)" marker is
// written so the orchestrator can report the weaker tie.
package main

import (
	"fmt"
	"go/ast"
	"go/constant"
	"go/parser"
	"go/token"
	"os"
	"path/filepath"
	"sort"
	"strconv"
	"strings"
)

var repo = "/repo"
var fallbacks []string

func parse(rel string) (*token.FileSet, *ast.File) {
	fset := token.NewFileSet()
	f, err := parser.ParseFile(fset, filepath.Join(repo, rel), nil, 0)
	if err != nil {
		return fset, nil
	}
	return fset, f
}

func findFunc(f *ast.File, name string) *ast.FuncDecl {
	if f == nil {
		return nil
	}
	for _, d := range f.Decls {
		if fd, ok := d.(*ast.FuncDecl); ok && fd.Name.Name == name {
			return fd
		}
	}
	return nil
}

var durations = map[string]string{
	"Hour": "3600000000000", "Minute": "60000000000", "Second": "1000000000",
	"Millisecond": "1000000", "Microsecond": "1000", "Nanosecond": "1",
}

func charLit(e ast.Expr) (int64, bool) {
	bl, ok := e.(*ast.BasicLit)
	if !ok {
		return 0, false
	}
	v := constant.MakeFromLiteral(bl.Value, bl.Kind, 0)
	if v.Kind() != constant.Int {
		return 0, false
	}
	n, ok := constant.Int64Val(v)
	return n, ok
}

// evalInt evaluates small constant integer expressions (literals, <<, +, -, *).
func evalInt(e ast.Expr, consts map[string]constant.Value) (constant.Value, bool) {
	switch x := e.(type) {
	case *ast.BasicLit:
		v := constant.MakeFromLiteral(x.Value, x.Kind, 0)
		return v, v.Kind() == constant.Int
	case *ast.ParenExpr:
		return evalInt(x.X, consts)
	case *ast.Ident:
		v, ok := consts[x.Name]
		return v, ok
	case *ast.BinaryExpr:
		a, ok1 := evalInt(x.X, consts)
		b, ok2 := evalInt(x.Y, consts)
		if !ok1 || !ok2 {
			return nil, false
		}
		switch x.Op {
		case token.SHL:
			s, _ := constant.Uint64Val(b)
			return constant.Shift(a, token.SHL, uint(s)), true
		case token.ADD, token.SUB, token.MUL:
			return constant.BinaryOp(a, x.Op, b), true
		}
	case *ast.CallExpr: // conversions like int64(x), uint32(x)
		if len(x.Args) == 1 {
			return evalInt(x.Args[0], consts)
		}
	}
	return nil, false
}

func timeoutUnits() (string, bool) {
	_, f := parse("grpcadapter/forwarder.go")
	fd := findFunc(f, "timeoutUnitToDuration")
	if fd == nil {
		return "", false
	}
	var rows []string
	ok := true
	ast.Inspect(fd, func(n ast.Node) bool {
		cc, is := n.(*ast.CaseClause)
		if !is || len(cc.List) == 0 {
			return true
		}
		if len(cc.Body) != 1 {
			ok = false
			return true
		}
		ret, is := cc.Body[0].(*ast.ReturnStmt)
		if !is || len(ret.Results) != 2 {
			ok = false
			return true
		}
		sel, is := ret.Results[0].(*ast.SelectorExpr)
		if !is {
			ok = false
			return true
		}
		ns, known := durations[sel.Sel.Name]
		if !known {
			ok = false
			return true
		}
		for _, c := range cc.List {
			ch, isch := charLit(c)
			if !isch {
				ok = false
				continue
			}
			rows = append(rows, fmt.Sprintf("(%d%%N, %s%%Z)", ch, ns))
		}
		return true
	})
	if !ok || len(rows) == 0 {
		return "", false
	}
	return "[" + strings.Join(rows, "; ") + "]", true
}

// size guard `size < A || size > B` of decodeTimeout
func timeoutGuard() (string, string, bool) {
	_, f := parse("grpcadapter/forwarder.go")
	fd := findFunc(f, "decodeTimeout")
	if fd == nil {
		return "", "", false
	}
	var lo, hi string
	ast.Inspect(fd, func(n ast.Node) bool {
		be, is := n.(*ast.BinaryExpr)
		if !is || be.Op != token.LOR || lo != "" {
			return true
		}
		l, ok1 := be.X.(*ast.BinaryExpr)
		r, ok2 := be.Y.(*ast.BinaryExpr)
		if !ok1 || !ok2 || l.Op != token.LSS || r.Op != token.GTR {
			return true
		}
		a, oka := evalInt(l.Y, nil)
		b, okb := evalInt(r.Y, nil)
		if oka && okb {
			lo, hi = a.ExactString(), b.ExactString()
		}
		return true
	})
	return lo, hi, lo != ""
}

func stringConsts(rel string, names ...string) map[string]string {
	_, f := parse(rel)
	out := map[string]string{}
	if f == nil {
		return out
	}
	want := map[string]bool{}
	for _, n := range names {
		want[n] = true
	}
	ast.Inspect(f, func(n ast.Node) bool {
		vs, is := n.(*ast.ValueSpec)
		if !is {
			return true
		}
		for i, id := range vs.Names {
			if want[id.Name] && i < len(vs.Values) {
				if bl, ok := vs.Values[i].(*ast.BasicLit); ok && bl.Kind == token.STRING {
					s, err := strconv.Unquote(bl.Value)
					if err == nil {
						out[id.Name] = s
					}
				}
			}
		}
		return true
	})
	return out
}

func coqBytes(s string) string {
	parts := make([]string, 0, len(s))
	for i := 0; i < len(s); i++ {
		parts = append(parts, strconv.Itoa(int(s[i])))
	}
	return "[" + strings.Join(parts, "; ") + "]%N"
}

// grpcWebMaxLen finds the `1 << 22`-style limit used in gRPCWebStream.recv: the second argument of min(...)
func intConstIn(rel, fn string, pick func(ast.Node) (ast.Expr, bool)) (string, bool) {
	_, f := parse(rel)
	fd := findFunc(f, fn)
	if fd == nil {
		return "", false
	}
	var res string
	ast.Inspect(fd, func(n ast.Node) bool {
		if res != "" {
			return false
		}
		if e, ok := pick(n); ok {
			if v, ok := evalInt(e, nil); ok {
				res = v.ExactString()
			}
		}
		return true
	})
	return res, res != ""
}

// websocketError close codes: the integer literals in 1000..1015 of the function, in source order
// (today: 1000 clean end, 1001 default for errors, 1003 wrong frame type)
func closeCodes() ([]string, bool) {
	_, f := parse("webbridge/websocket.go")
	fd := findFunc(f, "websocketError")
	if fd == nil {
		return nil, false
	}
	var out []string
	ast.Inspect(fd, func(n ast.Node) bool {
		if bl, ok := n.(*ast.BasicLit); ok && bl.Kind == token.INT {
			v, err := strconv.Atoi(bl.Value)
			if err == nil && v >= 1000 && v <= 1015 {
				out = append(out, bl.Value)
			}
		}
		return true
	})
	return out, len(out) == 3
}

// ---- template tokenizers and character classes (C20 / C03) ----

func strLit(e ast.Expr) (string, bool) {
	bl, ok := e.(*ast.BasicLit)
	if !ok || bl.Kind != token.STRING {
		return "", false
	}
	s, err := strconv.Unquote(bl.Value)
	return s, err == nil
}

func coqByteLists(ss []string) string {
	parts := make([]string, 0, len(ss))
	for _, s := range ss {
		parts = append(parts, strings.TrimSuffix(coqBytes(s), "%N"))
	}
	return "[" + strings.Join(parts, "; ") + "]%N"
}

// strictDelims: `var tnext = map[tstate]string{tsegment: "/{", ...}` of internal/httprule/tokenize.go, in the iota order of
// the tstate constants
func strictDelims() ([]string, bool) {
	_, f := parse("internal/httprule/tokenize.go")
	if f == nil {
		return nil, false
	}
	order := map[string]int{}
	vals := map[string]string{}
	for _, d := range f.Decls {
		gd, ok := d.(*ast.GenDecl)
		if !ok {
			continue
		}
		if gd.Tok == token.CONST {
			for i, sp := range gd.Specs {
				vs := sp.(*ast.ValueSpec)
				if i == 0 {
					if id, ok := vs.Type.(*ast.Ident); !ok || id.Name != "tstate" {
						break
					}
				}
				for _, n := range vs.Names {
					order[n.Name] = i
				}
			}
		}
		if gd.Tok == token.VAR {
			for _, sp := range gd.Specs {
				vs := sp.(*ast.ValueSpec)
				if len(vs.Names) != 1 || vs.Names[0].Name != "tnext" || len(vs.Values) != 1 {
					continue
				}
				cl, ok := vs.Values[0].(*ast.CompositeLit)
				if !ok {
					return nil, false
				}
				for _, el := range cl.Elts {
					kv, ok := el.(*ast.KeyValueExpr)
					if !ok {
						return nil, false
					}
					k, ok1 := kv.Key.(*ast.Ident)
					v, ok2 := strLit(kv.Value)
					if !ok1 || !ok2 {
						return nil, false
					}
					vals[k.Name] = v
				}
			}
		}
	}
	if len(vals) != 3 || len(order) != 3 {
		return nil, false
	}
	out := make([]string, 3)
	for k, v := range vals {
		i, ok := order[k]
		if !ok || i > 2 {
			return nil, false
		}
		out[i] = v
	}
	return out, true
}

// gwDelims: the string arguments of the strings.IndexAny calls in gwbased's tokenize, in source order
func gwDelims() ([]string, bool) {
	_, f := parse("internal/httprule/gwbased/parse.go")
	fd := findFunc(f, "tokenize")
	if fd == nil {
		return nil, false
	}
	var out []string
	ast.Inspect(fd, func(n ast.Node) bool {
		ce, ok := n.(*ast.CallExpr)
		if !ok || len(ce.Args) != 2 {
			return true
		}
		if se, ok := ce.Fun.(*ast.SelectorExpr); ok && se.Sel.Name == "IndexAny" {
			if s, ok := strLit(ce.Args[1]); ok {
				out = append(out, s)
			}
		}
		return true
	})
	return out, len(out) == 3
}

// pcharMarks: the character literals of the `switch <ident> { case 'x', 'y': ... }` statements of a pchar checker, '%' excluded
func pcharMarks(rel, fn string) (string, bool) {
	_, f := parse(rel)
	fd := findFunc(f, fn)
	if fd == nil {
		return "", false
	}
	var out []byte
	ast.Inspect(fd, func(n ast.Node) bool {
		sw, ok := n.(*ast.SwitchStmt)
		if !ok || sw.Tag == nil {
			return true
		}
		if _, ok := sw.Tag.(*ast.Ident); !ok {
			return true
		}
		for _, st := range sw.Body.List {
			cc := st.(*ast.CaseClause)
			for _, e := range cc.List {
				if ch, ok := charLit(e); ok && ch != '%' && ch < 256 {
					out = append(out, byte(ch))
				}
			}
		}
		return true
	})
	return string(out), len(out) > 0
}

func emit(b *strings.Builder, name, typ, val, fallback string, ok bool) {
	if !ok {
		fallbacks = append(fallbacks, name)
		fmt.Fprintf(b, "(* FALLBACK %s : shape not found in source, committed value used *)\n", name)
		val = fallback
	}
	fmt.Fprintf(b, "Definition %s : %s := %s.\n", name, typ, val)
}

func main() {
	if len(os.Args) > 1 {
		repo = os.Args[1]
	}
	out := "/dev/stdout"
	if len(os.Args) > 2 {
		out = os.Args[2]
	}
	var b strings.Builder
	b.WriteString("(* GENERATED by tools/extract_tables from /repo on every run. Do not edit. *)\n")
	b.WriteString("From Coq Require Import List ZArith NArith.\nImport ListNotations.\n\n")

	tu, ok := timeoutUnits()
	emit(&b, "timeout_units", "list (N * Z)", tu,
		"[(72%N, 3600000000000%Z); (77%N, 60000000000%Z); (83%N, 1000000000%Z); (109%N, 1000000%Z); (117%N, 1000%Z); (110%N, 1%Z)]", ok)
	lo, hi, ok := timeoutGuard()
	emit(&b, "timeout_min_size", "nat", lo, "2", ok)
	emit(&b, "timeout_max_size", "nat", hi, "9", ok)

	sc := stringConsts("grpcadapter/metadata.go", "grpcGatewayMetadataPrefix", "metadataTimeout", "metadataBinSuffix")
	v, ok := sc["grpcGatewayMetadataPrefix"]
	emit(&b, "md_gateway_prefix", "list N", coqBytes(v), coqBytes("grpc-metadata-"), ok)
	v, ok = sc["metadataTimeout"]
	emit(&b, "md_timeout_key", "list N", coqBytes(v), coqBytes("grpc-timeout"), ok)
	v, ok = sc["metadataBinSuffix"]
	emit(&b, "md_bin_suffix", "list N", coqBytes(v), coqBytes("-bin"), ok)

	// gRPC-Web frame size limit: const or literal used with min(...) / comparison in gRPCWebStream.recv
	lim, ok := intConstIn("webbridge/grpcweb.go", "recv", func(n ast.Node) (ast.Expr, bool) {
		if be, is := n.(*ast.BinaryExpr); is && be.Op == token.SHL {
			return be, true
		}
		return nil, false
	})
	emit(&b, "grpcweb_max_len", "Z", lim+"%Z", "4194304%Z", ok)

	cc, ok := closeCodes()
	var ccs []string
	for _, c := range cc {
		ccs = append(ccs, c+"%Z")
	}
	emit(&b, "ws_close_codes", "list Z", "["+strings.Join(ccs, "; ")+"]", "[1000%Z; 1001%Z; 1003%Z]", ok)

	// template tokenizers / character classes of both parsers
	sd, ok := strictDelims()
	emit(&b, "strict_delims", "list (list N)", coqByteLists(sd), coqByteLists([]string{"/{", ".=}", "/}"}), ok)
	gd, ok := gwDelims()
	emit(&b, "gw_delims", "list (list N)", coqByteLists(gd), coqByteLists([]string{"/{", ".=}", "/}"}), ok)
	pm, ok := pcharMarks("internal/httprule/parse.go", "consumePchar")
	emit(&b, "strict_pchar_marks", "list N", coqBytes(pm), coqBytes("-._~!$&'()*+,;=:@"), ok)
	pm, ok = pcharMarks("internal/httprule/gwbased/parse.go", "expectPChars")
	emit(&b, "gw_pchar_marks", "list N", coqBytes(pm), coqBytes("-._~!$&'()*+,;=:@"), ok)
	se := stringConsts("internal/httprule/parse.go", "eof")
	v, ok = se["eof"]
	emit(&b, "strict_eof", "list N", coqBytes(v), coqBytes("\x00"), ok)
	se = stringConsts("internal/httprule/gwbased/parse.go", "eof")
	v, ok = se["eof"]
	emit(&b, "gw_eof", "list N", coqBytes(v), coqBytes("\x00"), ok)

	// the close-reason limit of truncateReason (webbridge/websocket.go): `const maxReason = 123`
	mr, ok := func() (string, bool) {
		_, f := parse("webbridge/websocket.go")
		fd := findFunc(f, "truncateReason")
		if fd == nil {
			return "", false
		}
		res := ""
		ast.Inspect(fd, func(n ast.Node) bool {
			vs, is := n.(*ast.ValueSpec)
			if !is || len(vs.Names) != 1 || vs.Names[0].Name != "maxReason" || len(vs.Values) != 1 {
				return true
			}
			if v, ok := evalInt(vs.Values[0], nil); ok {
				res = v.ExactString()
			}
			return true
		})
		return res, res != ""
	}()
	emit(&b, "ws_max_reason", "nat", mr, "123", ok)

	sort.Strings(fallbacks)
	fmt.Fprintf(&b, "\n(* fallbacks: %s *)\n", strings.Join(fallbacks, " "))

	data := []byte(b.String())
	if out != "/dev/stdout" {
		if old, err := os.ReadFile(out); err == nil && string(old) == string(data) {
			return // unchanged: keep timestamp so make does not rebuild
		}
	}
	if err := os.WriteFile(out, data, 0o644); err != nil {
		fmt.Fprintln(os.Stderr, err)
		os.Exit(2)
	}
}
