#!/usr/bin/env python3
"""Regenerates MANIFEST.json from props.py (claimed properties) and properties.jsonl (all ids)."""
import json, os, sys
ROOT = os.path.dirname(os.path.dirname(os.path.abspath(__file__)))
sys.path.insert(0, ROOT)
from props import PROPS, NOT_APPLICABLE
ids = [json.loads(l)["id"] for l in open(os.path.join(ROOT, "properties.jsonl"))]
hooks = json.load(open(os.path.join(ROOT, "hooks.json")))
checks = []
for pid in ids:
    if pid not in PROPS:
        continue
    c = PROPS[pid]
    checks.append({
        "property_id": pid,
        "quick_cmd": "./check %s --tier quick" % pid,
        "thorough_cmd": "./check %s --tier thorough" % pid,
        "evidence_file": "evidence/%s.json" % pid,
        "replay_cmd_template": "./check %s --replay {path}" % pid,
        "engine": "coq-proof+correspondence",
        "level_claimed": {"category": "proof", "text": c["level_text"], "design_ref": c.get("design_ref", "DESIGN.md §3")},
        "level_note": c["level_note"],
        "technique": c.get("technique", "machine-checked proof in Coq 8.16.1 of a hand-written Gallina model + differential correspondence with the Go code on every run"),
    })
na = [{"property_id": pid, "reason": NOT_APPLICABLE.get(pid, "check not built yet; not claimed")} for pid in ids if pid not in PROPS]
man = {
    "version": 1,
    "setup_cmd": "./check --prebuild",
    "hooks": hooks,
    "engines": [
        {"name": "coq-development", "path": "coq/", "serves_properties": sorted(PROPS), "kind_free_text": "Coq 8.16.1 models (Model/), proofs (Proofs/), property theorems (Props/), regenerated tables (Gen/Extracted.v)"},
        {"name": "modelrun", "path": "ocaml/", "serves_properties": sorted(PROPS), "kind_free_text": "OCaml runner of the extracted models and chk functions (ExtrOcamlBasic only)"},
        {"name": "go-harness", "path": "harness/", "serves_properties": sorted(PROPS), "kind_free_text": "Go correspondence harnesses overlay-mounted into /repo (tag verif), driving the real implementation"},
        {"name": "extract_tables", "path": "tools/extract_tables", "serves_properties": ["C12", "C07", "C08", "C13"], "kind_free_text": "go/ast extractor regenerating constant tables into Gen/Extracted.v on every run"},
    ],
    "checks": checks,
    "not_applicable": na,
    "notes": "All checks: ./check <id>. See DESIGN.md. Evidence is rewritten by every run.",
}
json.dump(man, open(os.path.join(ROOT, "MANIFEST.json"), "w"), indent=1)
print("claimed:", [c["property_id"] for c in checks], "not claimed:", [n["property_id"] for n in na])
