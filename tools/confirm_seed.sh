#!/bin/bash
# usage: confirm_seed.sh <worktree> <change-dir> <demo-pkg-dir> <seed-id> <check-prop> [build-tags] [extra go test flags, e.g. -race]
# Confirms in the scratch worktree that the change compiles, passes the existing tests, that the demo fails with it and
# passes without; then runs ./check <prop> against /repo with the patch applied (and reverts), and files everything under seeded/<id>/.
set -u
export GOFLAGS=-mod=mod GOPROXY=off GOSUMDB=off GOTOOLCHAIN=local
WT=$1; CH=$2; DEMO=$3; ID=$4; PROP=$5
OUT=/verif/seeded/$ID; mkdir -p $OUT
# the change directory may live inside the worktree (untracked): move it out before cleaning
STAGE=$(mktemp -d /tmp/seedstage.XXXXXX); cp -r $CH/. $STAGE/; CH=$STAGE
cd $WT && git checkout -q -- . && git clean -fdq -e '.change*'
git apply $CH/patch.diff || { echo "patch does not apply"; exit 1; }
go build ./... || { echo "BUILD FAILS"; exit 1; }
T1=$(go test -count=1 ./... 2>&1 | grep -E "^(FAIL|---)" | head -5)
if [ -n "$T1" ]; then T1=$(go test -count=1 ./... 2>&1 | grep -E "^(FAIL|---)" | head -5); fi
cp $CH/demo_test.go $WT/$DEMO/zz_demo_test.go
D1=$(cd $WT/$DEMO && go test ${6:+-tags $6} ${7:-} -count=1 -run 'Demo' . 2>&1 | tail -1)
git checkout -q -- .
D2=$(cd $WT/$DEMO && go test ${6:+-tags $6} ${7:-} -count=1 -run 'Demo' . 2>&1 | tail -1)
rm -f $WT/$DEMO/zz_demo_test.go
cd /verif
git -C /repo apply $CH/patch.diff
C1=$(./check $PROP 2>&1 | grep -E "VIOLATION|tier=" | head -3)
git -C /repo checkout -- .
cp $CH/patch.diff $OUT/patch.diff; cp $CH/demo_test.go $OUT/demo_test.go
python3 - "$CH/meta.json" "$OUT/meta.json" "$T1" "$D1" "$D2" "$C1" "$PROP" "$DEMO" <<'PY'
import json,sys
src,dst,t1,d1,d2,c1,prop,demo=sys.argv[1:9]
m=json.load(open(src))
m.update({"property":prop,"demo_dir":demo,"confirmed":{"existing_tests_with_change":"pass" if not t1 else t1,
  "demo_with_change":d1,"demo_without_change":d2,"check_with_change":c1}})
json.dump(m,open(dst,"w"),indent=1)
print(json.dumps(m["confirmed"],indent=1))
PY
