import sys,collections
sys.path.insert(0,'/verif/tools')
from vshow import show
for part in ['gw','strict','trie']:
    cases=open(f'/verif/work/C20/{part}.cases').read().splitlines()
    ver=open(f'/verif/work/C20/{part}.verdicts').read().splitlines()
    cnt=collections.Counter(); shown=collections.Counter()
    for c,v in zip(cases,ver):
        vv=show(v); key=(vv[0],vv[1] if vv[0]==2 else None); cnt[key]+=1
        if vv[0]!=0 and shown[key]<14:
            shown[key]+=1
            cc=show(c)
            if part=='trie':
                print(part,key,'path=',repr(cc[0][1]),'impl=',cc[1], 'tmpl=', cc[0][0][cc[1][0]] if cc[1] and cc[1][0]!=99 else None)
            else:
                print(part,key,'kind',cc[0][0],repr(cc[0][1]),'impl=',str(cc[1])[:200],'model=',str(vv[-1])[:150] if part=='gw' else '')
    print(part,cnt)
