#!/usr/bin/env python3
"""pretty-print val text lines: ints as decimal, strings as text"""
import sys
def parse(toks,i):
    t=toks[i]
    if t=='(':
        out=[];i+=1
        while toks[i]!=')':
            v,i=parse(toks,i);out.append(v)
        return out,i+1
    if t.startswith('#-'): return -int(t[2:] or '0',16),i+1
    if t.startswith('#'): return int(t[1:] or '0',16),i+1
    if t.startswith('x'):
        b=bytes.fromhex(t[1:])
        try: return b.decode(),i+1
        except: return b,i+1
    raise ValueError(t)
def show(line):
    toks=line.split()
    v,_=parse(toks,0)
    return v
if __name__=='__main__':
    for l in sys.stdin:
        l=l.strip()
        if l: print(show(l))
