#!/usr/bin/env python3
"""summarise work/<id>/<part>.verdicts: counts + samples"""
import sys,collections
sys.path.insert(0,'/verif/tools')
from vshow import show
pid=sys.argv[1]; n=int(sys.argv[3]) if len(sys.argv)>3 else 10
for part in sys.argv[2].split(','):
    cases=open(f'/verif/work/{pid}/{part}.cases').read().splitlines()
    ver=open(f'/verif/work/{pid}/{part}.verdicts').read().splitlines()
    cnt=collections.Counter(); samples=collections.defaultdict(list)
    for c,v in zip(cases,ver):
        vv=show(v); key=(vv[0],vv[1] if vv[0]==2 else None); cnt[key]+=1
        if len(samples[key])<n and vv[0]!=0: samples[key].append((show(c),vv))
    print(part,dict(cnt))
    for k,ss in samples.items():
        print('==',k)
        for s in ss: print('  ',s)
