#!/bin/bash
# usage: recheck_seed.sh <seed-id> <prop> "<strengthened note>"
# re-runs ./check <prop> with the seed's patch applied to /repo (reverted afterwards) and records the outcome in its meta.json;
# the previous outcome is kept as check_with_change_before_strengthening
ID=$1; PROP=$2; NOTE=$3
cd /verif
git -C /repo apply /verif/seeded/$ID/patch.diff || { echo "patch does not apply"; exit 1; }
C1=$(./check $PROP 2>&1 | grep -E "VIOLATION|tier=" | head -3)
git -C /repo checkout -- .
python3 - "$ID" "$C1" "$NOTE" <<'PY'
import json,sys
i,c1,note=sys.argv[1:4]
p='/verif/seeded/%s/meta.json'%i
m=json.load(open(p))
c=m.setdefault('confirmed',{})
if 'check_with_change' in c and 'check_with_change_before_strengthening' not in c and note:
    c['check_with_change_before_strengthening']=c['check_with_change']
c['check_with_change']=c1
if note: m['strengthened']=note
json.dump(m,open(p,'w'),indent=1)
print(c1)
PY
