#!/bin/bash
# usage: mk_seed_task.sh <prop> <n>   -> creates a scratch worktree /tmp/wt-<prop>-<n> of /repo (HEAD), writes the property's
# text (and nothing else from /verif) to <worktree>/.PROPERTY.json, and prints the worktree path.
set -eu
P=$1; N=$2; WT=/tmp/wt-$P-$N
git -C /repo worktree remove --force $WT 2>/dev/null || true
rm -rf $WT
git -C /repo worktree add -q --detach $WT HEAD
python3 - "$P" "$WT" <<'PY'
import json,sys
p,wt=sys.argv[1:3]
for l in open('/verif/properties.jsonl'):
    d=json.loads(l)
    if d['id']==p:
        d={k:v for k,v in d.items() if k in('id','title','statement','quantifier','why_tests_cant','anchors')}
        json.dump(d,open(wt+'/.PROPERTY.json','w'),indent=1)
PY
echo $WT
